#!/usr/bin/env python3
"""Replace the seeded-change table at the end of DESIGN.md section 12 with tools/seed_table.py's output."""
import os
import subprocess

VERIF = os.path.dirname(os.path.dirname(os.path.abspath(__file__)))
p = os.path.join(VERIF, "DESIGN.md")
lines = open(p).read().split("\n")
start = next(i for i, l in enumerate(lines) if l.startswith("| seed | property |"))
end = start
while end < len(lines) and lines[end].startswith("|"):
    end += 1
table = subprocess.run(["python3", os.path.join(VERIF, "tools", "seed_table.py")], stdout=subprocess.PIPE, text=True, check=True).stdout.rstrip("\n").split("\n")
lines[start:end] = table
open(p, "w").write("\n".join(lines))
print("table rows:", len(table) - 2)
