import json, os
S = {
"C01-P": ("ExtendedToStreamDecorator remembers the test id at startTest and uses it for every outcome", "a test that runs another TestCase against the same result (nested runs)", "missed at first: one test at a time; nested runs from the body, tearDown and a cleanup added for every result flavour"),
"C01-Q": ("RunTest._run_cleanups detaches the cleanup list and walks a snapshot", "a cleanup that registers a further cleanup", "missed by C01 (no cleanup-registered cleanups there); caught by C02 as it was"),
"C02-P": ("the unittest.expectedFailure wrapping moves from __init__ into run()", "an expectedFailure-decorated test whose body passes, run twice", "missed at first: C02 had no decorated tests; two such registration sets added (the re-run comparison catches it)"),
"C02-Q": ("the cleanup phase is only entered when something is pending right after the test method", "caught by the check as it was", "caught by the check as it was"),
"C03-P": ("TestCase.expectFailure catches Exception", "expectFailure around a predicate that raises an error rather than failing", "missed at first: expected failures always failed; a predicate raising an error added as a behaviour"),
"C03-Q": ("_select_exception recognises skips and expected failures by exact type", "caught by the check as it was", "caught by the check as it was"),
"C04-P": ("TextTestResult remembers the sections it has written, across runs", "caught by the check as it was", "caught by the check as it was"),
"C04-Q": ("TestResult.addSubTest stops a fail-fast run before looking whether the subtest failed", "fail-fast and a stdlib TestCase whose subtests pass", "missed at first (addSubTest itself is a repair of wave 7): a test with passing subtests added to the suites"),
"C05-P": ("useFixture merges the details of a failed fixture with dict.update", "caught by the check as it was", "caught by the check as it was"),
"C05-Q": ("ExtendedToStreamDecorator sends no file event for a content that yields no chunk", "a detail whose iter_bytes() yields nothing, a StreamResult behind the decorator", "missed by C05 (extended results only); caught by C09's stream clause as it was"),
"C06-P": ("KeysEqual only takes a dict as the single-mapping argument", "KeysEqual(mapping) with a mapping that is not a dict (mappingproxy, ChainMap)", "missed at first; a mappingproxy leaf added"),
"C06-Q": ("HasPermissions masks the mode with 0o777", "a path with the sticky / set-id bits set", "missed at first: the scratch tree had plain modes; a 1644 file added"),
"C07-P": ("NotAnInstance.describe unpacks the first type", "IsInstance() built with no types (assertIsInstance(x, ()))", "missed at first; the empty IsInstance added as a leaf"),
"C07-Q": ("MatchesRegex converts a bytes pattern before unwrapping a compiled one", "a compiled bytes pattern that does not match", "missed at first; such a leaf added (match() raising is C06's clause: caught there)"),
"C08-P": ("MultiTestResult skips a time() equal to the last one it dispatched, across runs", "a later run whose first supplied time equals the previous run's last", "missed at first; a fourth run starting with the third's last time added"),
"C08-Q": ("TestByTestResult.addSkip: 'if not details'", "caught by the check as it was", "caught by the check as it was"),
"C09-P": ("application/octet-stream details are sent with mime_type None, parameters and all", "an octet-stream content type that has parameters", "missed at first; such a content type added to the payload alphabet"),
"C09-Q": ("_ensure_key ignores falsy test ids", "a test whose id is the empty string", "missed at first; a setting whose first test has the id '' added"),
"C10-P": ("StreamSummary drops events that carry neither a status nor a file", "caught by the check as it was", "caught by the check as it was"),
"C10-Q": ("StreamToExtendedDecorator.stopTestRun stops the wrapped result before flushing the open tests", "caught by the check as it was", "caught by the check as it was"),
"C11-P": ("StreamToQueue leaves a route code alone that already begins with its own code", "caught by the check as it was", "caught by the check as it was (an event whose route begins with a queue's code was added as well)"),
"C11-Q": ("an inner StreamTagger updates a tag set made by an outer tagger in place", "caught by the check as it was", "caught by the check as it was"),
"C12-P": ("ThreadsafeForwardingResult.stop releases the semaphore twice", "caught by the check as it was", "caught by the check as it was"),
"C12-Q": ("the semaphore is only released when the target raises an Exception", "a target call raising a BaseException that is not an Exception", "missed at first: injected faults were Exceptions; some are BaseExceptions now"),
"C13-P": ("ConcurrentTestSuite keys its thread table by id(sub_suite)", "make_tests handing out the same sub-suite object twice", "missed at first; such a harness added"),
"C13-Q": ("StreamToQueue joins the non-empty codes", "a worker whose route code is the empty string", "missed at first; a worker with route code '' added"),
"C14-P": ("TestCase._reset no longer empties the cleanup list", "a run abandoned before its cleanups (timeout, interrupt), then the same test object run again", "missed at first; the same object is now run again after every abandoned run"),
"C14-Q": ("after setUp, anything but None counts as 'setUp failed'", "caught by the check as it was", "caught by the check as it was"),
"C15-P": ("the TimeoutError is built from function.__qualname__", "a callable without a name (functools.partial) and a run that times out", "missed at first - and the changed code never returns: the virtual reactor now ends a main loop that could never end and the harness reports the hang"),
"C15-Q": ("_get_result raises a stored failure before looking at the interrupt flag", "caught by the check as it was", "caught by the check as it was (stop-then-deliver in one call was added as well)"),
"C16-P": ("_copy_content copies the content object and swaps its callback", "a Content subclass that overrides iter_bytes(), gathered, its source changed afterwards", "missed at first; a self-serialising subclass added to the snapshot clause"),
"C16-Q": ("_make_content_type lower-cases the charset", "a charset value with upper-case letters", "missed at first; 'UTF-8' added to the parameter values"),
"C17-P": ("ThreadsafeForwardingResult.startTestRun no longer takes the semaphore", "a forwarder starting its run while another is inside a block", "a schedule: caught by C12 as it was"),
"C17-Q": ("the test-local tag buffer is emptied with the first outcome", "caught by the check as it was", "caught by the check as it was"),
"C18-P": ("the prefix rule is found with startswith", "a first segment that merely begins with a registered prefix ('00' vs '0')", "missed at first: one-character segments; a two-character first segment added"),
"C18-Q": ("add_rule returns early when the rule's sink is the fallback", "caught by the check as it was", "caught by the check as it was"),
"C19-P": ("_flatten_tests sorts a custom suite before it takes the placing id, through the iterator bound on entry", "a suite whose sort_tests sorts its list in place", "missed at first: the sorting suite bound a new list; it sorts in place now"),
"C19-Q": ("--list recognises import-failure pseudo tests by a substring", "a test id with that text in the middle", "missed at first; one of the three ids now has it"),
"C20-P": ("DeferredNotFired's message uses the Deferred's debug info without a guard", "Deferred debugging switched on after the Deferred was made, extract_result while unfired", "missed at first; extract_result now runs with debugging switched on"),
"C20-Q": ("on_deferred_result tells failure from success by isinstance(result, BaseException)", "a Deferred fired successfully with an exception instance as its value", "missed at first; such a firing value added"),
}
for sid,(summary,needs,note) in S.items():
    f="/verif/seeded/%s/meta.json"%sid
    if os.path.exists(f):
        m=json.load(open(f)); m["summary"]=summary; m["note"]=note; m["wave"]=8
        if not needs.startswith("caught by the check"):
            m["needs_to_manifest"]=needs
        m["caught_by_the_checks_as_they_were_when_the_change_was_written"]= note.startswith("caught by the check as it was")
        json.dump(m,open(f,"w"),indent=1)
print("ok")
