#!/usr/bin/env python3
"""Confirm and file one seeded change.

usage: keep_seed.py <seed id e.g. C01-A> <patch> <demo> <needs text file or '-'> <check id> [...]

Runs tools/try_seed.py, and if the suite passes with the change and the demo fails with / passes
without it, stores /verif/seeded/<id>/{patch.diff, demo.py, meta.json}.
"""
import json
import os
import shutil
import subprocess
import sys

VERIF = os.path.dirname(os.path.dirname(os.path.abspath(__file__)))
sid, patch, demo, needs = sys.argv[1:5]
checks = sys.argv[5:]
p = subprocess.run(["python3", os.path.join(VERIF, "tools", "try_seed.py"), patch, demo] + checks, stdout=subprocess.PIPE, stderr=subprocess.STDOUT, text=True)
out = p.stdout
try:
    summary = json.loads(out[out.index("{"):])
except Exception:
    print(out)
    sys.exit(2)
confirmed = summary.get("suite_passes_with_change") and summary.get("demo_exit_with_change") not in (0, None) and summary.get("demo_exit_without_change") == 0
print(json.dumps(summary, indent=1))
if not confirmed:
    print("NOT CONFIRMED (suite/demo conditions not met): not stored")
    sys.exit(1)
d = os.path.join(VERIF, "seeded", sid)
os.makedirs(d, exist_ok=True)
shutil.copy(patch, os.path.join(d, "patch.diff"))
shutil.copy(demo, os.path.join(d, "demo.py"))
meta = {
    "id": sid,
    "breaks_property": sid.split("-")[0],
    "needs_to_manifest": open(needs).read().strip() if needs != "-" and os.path.exists(needs) else "",
    "confirmed": {
        "suite_with_change": summary.get("suite_line"),
        "demo_exit_with_change": summary.get("demo_exit_with_change"),
        "demo_exit_without_change": summary.get("demo_exit_without_change"),
    },
    "ran": ["git -C /repo worktree add --detach <scratch> HEAD", "git -C <scratch> apply patch.diff", "python3 tools/baseline.py <scratch>", "PYTHONPATH=<scratch> /venv/bin/python demo.py  (must fail)"] + ["VERIF_REPO=<scratch> ./check %s --tier quick" % c for c in checks] + ["git -C <scratch> checkout -- .", "PYTHONPATH=<scratch> /venv/bin/python demo.py  (must pass)"],
    "detected_by": {c: v for c, v in summary.get("checks", {}).items()},
}
json.dump(meta, open(os.path.join(d, "meta.json"), "w"), indent=1)
print("stored", d, "detected_by", {c: v["violations"] for c, v in meta["detected_by"].items()})
