import json, os
S = {
"C01-I": ("RunTest._run_core: stages run in a loop, a stage counts as failed when _run_user returns anything but None", "the test method or tearDown returns a value (return total; a generator test)", "missed at first: stages returned None; a behaviour returning a value added"),
"C01-J": ("the str() conversion of a skip reason moved from _add_reason into skipTest()/expectFailure()", "a stage raises the skip exception directly with a non-str argument (raise SkipTest(err))", "missed at first: non-str reasons only through skipTest(); a directly raised skip exception added"),
"C02-I": ("MonkeyPatcher looks the original up in vars(obj) only", "patch() of an attribute that exists but is not in the object's own __dict__ (property with setter, slot, proxy)", "missed at first: only plain instance and class attributes were patched; a property-backed attribute added (patch.diff rebased onto the repaired tree)"),
"C02-J": ("AsynchronousDeferredRunTest._run_cleanups peeks at the last cleanup and removes it by value afterwards", "the same (function, args) registered twice with another cleanup in between", "missed at first: C02 drives the plain runner (it catches the same edit there) and cleanups were distinct; duplicate registrations added to C02 and to C14 (caught by C14; patch.diff rebased)"),
"C03-I": ("_got_user_exception records only the last constituent of a MultipleExceptions", "one MultipleExceptions whose constituents are a failure followed by a skip", "missed at first: MultipleExceptions always ended in a failure; (failure, skip) added"),
"C03-J": ("useFixture re-raises only the original skip when fixture setUp fails with MultipleExceptions(skip, ..., SetupError)", "a fixture whose _setUp registers a cleanup and skips, the cleanup then failing", "missed at first: no fixtures in C03; such a fixture added as a behaviour"),
"C04-I": ("MultiTestResult._set_failfast returns early when the first member already has the requested value", "members configured differently before wrapping (first off, second on), then failfast = False on the multiplexer", "missed at first: failfast was only ever switched on after wrapping; switching it off over differently configured members added"),
"C04-J": ("StreamToExtendedDecorator.stopTestRun stops the wrapped result before it reports the unfinished tests", "a test without outcome when the run stops, wrapped result is a TextTestResult", "missed at first: C10 ignored where run-level events fall; the wrapped result's run bracket is checked now (caught by C10)"),
"C05-I": ("_run_user returns at once for an exception object it has already recorded", "the same exception object raised by two stages", "missed at first: every raise made a new exception; a stored exception raised again added"),
"C05-J": ("the traceback behind an expected failure is attached by the outcome reporter instead of expectFailure()/the decorator wrapper", "an expected failure that does not decide the outcome", "caught by the check as it was"),
"C06-I": ("SamePath: realpath(abspath(x)) instead of abspath(realpath(x))", "'..' after a symlink to a directory elsewhere", "missed at first: no such path in the scratch tree; added"),
"C06-J": ("_MatchCommonKeys looks expected keys up with observed[key] and skips KeyError", "the matched dict is a Counter/defaultdict (__missing__)", "missed at first: plain dicts only; both added"),
"C07-I": ("AsynchronousDeferredRunTest applies force_failure before the cleanups", "async runner and an expectThat that mismatches only inside a cleanup", "missed at first: expectThat sites were run under the plain runner only; the Deferred-aware runners added"),
"C07-J": ("_sorted_keys' fallback orders by (type name, key) instead of (type name, repr(key))", "two mismatching dict keys of one type that do not order among themselves (tuples)", "missed at first: the fallback was only exercised with keys of different types; such keys added"),
"C08-I": ("MultiTestResult.tags subtracts its own current tags from new_tags before dispatching", "a member behind a Tagger that strips a run-level tag, which a test then adds again", "missed by C08 (its taggers never strip what the history adds); caught by C17's Multi(Tagger(Ext),Ext) configuration"),
"C08-J": ("ExtendedToOriginalDecorator._check_args: 'if err:'", "addSkip with an empty reason", "missed at first by C08 (C01's empty-reason decorators catch the same edit): empty reason added"),
"C09-I": ("'inprogress' carries the current tags + _update_case ignores an empty tag set", "run-level tags current at startTest, all removed inside the test", "missed at first: no test ended with an empty tag set after starting with tags; added"),
"C09-J": ("ExtendedToStreamDecorator's clock is reset in __init__ only", "the converter reused for a second run that reports before any time() call", "missed at first: one run per converter; a second run added"),
"C10-I": ("StreamToExtendedDecorator turns id-less file events into a test 'testtools.extradata'", "an event without test id that carries a file", "caught by the check as it was"),
"C10-J": ("Content._iter_text decodes each chunk on its own", "a text attachment whose chunk boundary splits a character, final fail/xfail/skip in StreamSummary", "missed at first by C10 (C09 and C16 catch the same edit): attachments were single-byte; fixed histories with a split character added"),
"C11-I": ("StreamTagger computes (tags - discard) | add", "a tagger whose add and discard sets overlap", "missed at first: disjoint add/discard; an overlapping tagger added"),
"C11-J": ("StreamToQueue memoises prefixed route codes in a class-level dict", "two StreamToQueue objects with different routing codes receiving the same route code", "missed at first: one routing code per tree; trees with two added"),
"C12-I": ("TFR.tags decides test-local vs run-level by _test_start", "tags() between a test's outcome and its stopTest, then another test", "missed at first by C12 (C17 catches it): no tags after the outcome; added"),
"C12-J": ("the block's start time becomes min(start, now)", "explicit times going backwards inside one test", "missed at first: ascending times; a clock set back inside a test added"),
"C13-I": ("ConcurrentStreamTestSuite uses Queue(maxsize=256)", "lazy make_tests and an early worker emitting more than 256 events before the next worker is created", "missed at first: the queue shim ignored maxsize and no worker was that chatty; bounded queues are modelled and a 300-event worker added (deadlock found at one preemption)"),
"C13-J": ("one ThreadsafeForwardingResult shared by all workers of a ConcurrentTestSuite", "two workers with overlapping tests", "caught by the check as it was"),
"C14-I": ("logged errors are flushed after the try/except that returns early on timeout/interrupt", "a run abandoned with an error logged and unflushed, then a clean test", "missed at first: one test per execution; a clean follow-up test is run after such executions"),
"C14-J": ("_TwistedLogObservers registers on the global publisher without the legacy wrapper", "an error logged through twisted.logger", "missed at first: errors were logged with log.err only; Logger().failure added"),
"C15-I": ("_spinning is set inside run_function instead of before reactor.run()", "reactor.stop() requested during start-up, ahead of the function", "missed at first: stops came at t >= 1; a stop during start-up added"),
"C15-J": ("signals are saved once per Spinner", "one Spinner run twice with handlers changed in between", "missed at first: one handler configuration per history; a switch between runs added"),
"C16-I": ("the text returned by the final decode(b'', True) is dropped", "a charset whose decoder holds output back until the end (utf-7)", "caught by the check as it was"),
"C16-J": ("ContentType.__repr__ renders values with json.dumps", "a non-ASCII or control character in a parameter value", "caught by the check as it was"),
"C17-I": ("TFR calls target.stopTest after releasing the semaphore", "two forwarders; another thread's block starts between release and stopTest", "a schedule, not a history: invisible to C17's sequential search, caught by C12"),
"C17-J": ("TFR clears its per-test tag buffer in startTest only", "test-local tags, then the startTest-less skip pair", "caught by the check as it was"),
"C18-I": ("the consume flag lives in a separate set that is never shrunk", "a prefix registered with consume_route=True and later again with False", "missed at first: a second rule for a key was treated as ambiguous and not generated; it simply replaces the first, and is generated now"),
"C18-J": ("add_rule de-duplicates start/stop sinks by equality", "two different sinks that compare equal", "missed at first: sinks compared by identity anyway; value-equal sinks added"),
"C19-I": ("filter_by_ids recognises leaves by isinstance(TestCase)", "a PlaceHolder whose id is not selected", "caught by the check as it was"),
"C19-J": ("--load-list: the filter is skipped when the list is empty", "a zero-byte list file", "caught by the check as it was"),
"C20-I": ("succeeded()/failed() no longer consume the inspected failure (only clear the debug info)", "failed Deferred inspected, a further callback added, then dropped", "caught by the check as it was"),
"C20-J": ("on_deferred_result caches the probe of an unfired Deferred", "matcher applied while unfired, a result-changing callback added, fired, matched again", "caught by the check as it was"),
}
for sid,(summary,needs,note) in S.items():
    f="/verif/seeded/%s/meta.json"%sid
    if os.path.exists(f):
        m=json.load(open(f)); m["summary"]=summary; m["needs_to_manifest"]=needs; m["note"]=note; m["wave"]=5
        m["caught_by_the_checks_as_they_were_when_the_change_was_written"]= note.startswith("caught by the check as it was")
        json.dump(m,open(f,"w"),indent=1)
print("ok")
