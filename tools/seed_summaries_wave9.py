import json, os
# wave 9 (six changes, a short session): summary, what it needs, note; for the three that were missed at first the
# "detected_by" entry is taken from the re-run against the strengthened check (/tmp/mut9/<prop>.re at the time)
S = {
"C06-R": ("MatchesException(instance) compares the reprs of the two exceptions instead of their args", "an instance of a SUBCLASS of the expected exception's type with equal args (or equal args whose reprs differ)", "missed at first: every exc_info matchee was of the expected class itself; a subclass instance with the same args added to the exc_info domain"),
"C10-R": ("_TestRecord.got_timestamp back-fills a missing first timestamp with a later one", "caught by the check as it was", "caught by the check as it was"),
"C11-R": ("TimestampingStreamResult makes a supplied naive datetime tz-aware (replace(tzinfo=utc))", "a status event whose caller-supplied timestamp is a naive datetime", "missed at first: every supplied timestamp was tz-aware; an event with a naive timestamp added to the alphabet (17 events)"),
"C16-R": ("Content._iter_text decodes chunks that are all-ASCII bytes with 'ascii' instead of the declared charset's incremental decoder", "caught by the check as it was", "caught by the check as it was"),
"C18-R": ("StreamResultRouter.status hands a consuming rule only the second segment of the route code", "caught by the check as it was", "caught by the check as it was"),
"C19-R": ("--load-list reads the id file in text mode and strips lines with str.strip()", "a listed id ending in a character that str.strip() removes and bytes.strip() does not (U+00A0), or containing a bare CR", "missed at first: ASCII ids only; one of the three ids now ends in a no-break space"),
}
for sid, (summary, needs, note) in S.items():
    f = "/verif/seeded/%s/meta.json" % sid
    m = json.load(open(f)); m["summary"] = summary; m["note"] = note; m["wave"] = 9
    if not needs.startswith("caught by the check"):
        m["needs_to_manifest"] = needs
    m["caught_by_the_checks_as_they_were_when_the_change_was_written"] = note.startswith("caught by the check as it was")
    re_ = "/tmp/mut9/%s.re" % sid.split("-")[0]
    if not m["caught_by_the_checks_as_they_were_when_the_change_was_written"] and os.path.exists(re_):
        out = open(re_).read(); d = json.loads(out[out.index("{"):])
        m["detected_by_before_strengthening"] = m["detected_by"]
        m["detected_by"] = d["checks"]
    json.dump(m, open(f, "w"), indent=1)
print("ok")
