#!/bin/sh
# usage: tools/run_all.sh [tier] [seed]  -- runs every check, prints one line each, validates evidence
cd "$(dirname "$0")/.."
TIER=${1:-quick}
SEED=${2:-0}
rc=0
for id in C01 C02 C03 C04 C05 C06 C07 C08 C09 C10 C11 C12 C13 C14 C15 C16 C17 C18 C19 C20; do
  start=$(date +%s)
  out=$(VERIF_SEED=$SEED ./check $id --tier $TIER 2>&1 | grep -v "conda.cli")
  code=$?
  end=$(date +%s)
  last=$(echo "$out" | tail -1 | cut -c1-200)
  nviol=$(echo "$out" | grep -c "^VIOLATION")
  echo "$id exit=$code viol=$nviol $((end-start))s :: $last"
  [ "$nviol" != "0" ] && rc=1
done
python3-vt - <<'PY'
import json, jsonschema, glob
sch = json.load(open('/root/.vp/EVIDENCE.schema.json'))
for f in sorted(glob.glob('evidence/*.json')):
    try:
        jsonschema.validate(json.load(open(f)), sch)
    except Exception as e:
        print("EVIDENCE INVALID", f, str(e)[:200])
print("evidence validated")
jsonschema.validate(json.load(open('MANIFEST.json')), json.load(open('/root/.vp/MANIFEST.schema.json')))
print("manifest valid")
PY
exit $rc
