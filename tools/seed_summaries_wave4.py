import json, os
S = {
"C01-G": ("RunTest.run: 'result or defaultTestResult()' instead of 'is None'", "a result object that is falsy (defines __len__/__bool__)", "missed at first: results were truthy; a falsy 2.7-style result added as a flavour"),
"C01-H": ("run_test_with's factory no longer forwards last_resort", "@run_test_with(RunTest) on the test method and a stage raising KeyboardInterrupt/SystemExit", "missed at first: no run_test_with decorator; one naming the default runner added"),
"C02-G": ("RunTest._run_user loses its positional-only marker", "a cleanup registered with a keyword argument named fn", "caught by the check as it was (the demonstration inserted its own worktree into sys.path, which the evaluation now neutralises)"),
"C02-H": ("_got_user_exception returns None for MultipleExceptions + success decided by 'not self._exceptions'", "setUp ending in MultipleExceptions (useFixture of a failing composite fixture)", "caught by the check as it was (patch.diff is the change rebased onto the repaired tree)"),
"C03-G": ("expectThat sets force_failure = failed (a later match resets it)", "a mismatching expectThat followed by a matching one", "missed at first: one expectThat per test; a matching one now follows the mismatching one (C03 and C07)"),
"C03-H": ("force_failure is checked before the cleanups instead of after them", "a mismatch (or force_failure) that happens only while cleanups run", "missed at first by C03 (C07's expectThat-in-a-cleanup site catches it): an expectation failing inside a cleanup added to C03"),
"C04-G": ("ExtendedToOriginalDecorator.startTestRun re-runs __init__ (forgets its own failfast)", "failfast set on the decorator after wrapping a result without failfast, then startTestRun", "caught by the check as it was"),
"C04-H": ("PlaceHolder.run returns at once when result.shouldStop", "outcomes replayed by StreamToExtendedDecorator into a result that was asked to stop earlier", "missed at first; C04 drives results directly, the replay path is C09's: a stopped final target added there (caught by C09)"),
"C05-G": ("_add_reason keeps the first reason (setdefault)", "expectFailure records a reason, a later stage raises the skip that decides the outcome", "caught by the check as it was"),
"C05-H": ("onException returns before the handler loop for skip/expected-failure/unexpected-success exceptions", "handlers registered and a stage raising one of those", "caught by the check as it was"),
"C06-G": ("MatchesStructure.update edits the base matcher's own kws", "a base matcher that variants were derived from with update(), used again", "missed at first: update() results only; the base after update() added as leaves"),
"C06-H": ("Warnings.match: resetwarnings() instead of simplefilter('always')", "a callable emitting the same warning twice from one source line", "missed at first: no such callable; added"),
"C07-G": ("addDetailUniqueName numbers by counting existing 'name-' details", "a gap in the numbering (log, log-2) when a mismatch detail 'log' arrives", "missed at first: contiguous numbering only; a gapped name set added to C05 (C07 delegates detail naming to C05)"),
"C07-H": ("StackLinesContent encodes its text eagerly (strict)", "a mismatching expectThat whose text holds a lone surrogate", "missed at first: no lone surrogate among the matchees; adding one exposed a defect of the unmodified tree first (reporting such a failure raised UnicodeEncodeError), repaired; patch.diff is the change rebased onto the repaired tree"),
"C08-G": ("TestResult's clock is initialised in __init__ only (startTestRun no longer resets it)", "TestByTestResult reused for a second run in which nobody calls time()", "missed at first: one run per object; a second run without time() added"),
"C08-H": ("TestResultDecorator forwards err=/reason= by keyword", "TestResultDecorator/Tagger directly over MultiTestResult (parameter named 'error'), addError", "caught by the check as it was"),
"C09-G": ("_TestRecord.got_timestamp keeps min(start, new)", "explicit time() values that go backwards inside one test", "missed at first: ascending times only; a clock set back inside a test added"),
"C09-H": ("StreamToExtendedDecorator drops status-less events for a (test id, route) it has already reported", "the same test id reported twice in one run (a retried test), the later one with details", "missed at first: ids were distinct; a repeated id added"),
"C10-G": ("_update_case only records a timestamp that is not None", "a timestamped event followed by a final status without timestamp", "caught by the check as it was"),
"C10-H": ("_inprogress created in __init__ and not drained by stopTestRun", "consumer reused for a second run after a run with an incomplete test", "caught by the check as it was"),
"C11-G": ("TimestampingStreamResult fills with max(now, latest supplied)", "a supplied timestamp ahead of the clock, then an event without one", "missed at first: supplied timestamps were in the past; a future one added"),
"C11-H": ("StreamFailFast returns early for events carrying an attachment", "one status() call with both a failing status and a file", "missed at first: statuses and attachments came in separate events; a combined event added"),
"C12-G": ("ExtendedToOriginalDecorator drops a time() that repeats the last one it forwarded", "explicit times that repeat (start == end, or a test starting when its predecessor ended)", "missed at first: all times distinct; harness 2xsametime added"),
"C12-H": ("block sends one merged tags() call with the arguments of _merge_tags swapped", "a run-level tag change and the opposite test-local one for the same tag", "caught by the check as it was"),
"C13-G": ("ConcurrentStreamTestSuite creates its queue once in the constructor", "the same suite object run again after an aborted run", "missed at first (and the harness hung: the suite was built before the shims were installed): suites are now built under the shims and an aborted run is followed by a second run"),
"C13-H": ("ConcurrentTestSuite starts its workers before the try block", "make_tests raising after yielding k >= 1 sub-suites", "caught by the check as it was (patch.diff is the change rebased onto the repaired tree)"),
"C14-G": ("the GeneratorExit guard in _run_cleanups removed", "run abandoned while a cleanup's Deferred is unfired, more cleanups queued, chain finalised later", "missed at first: nothing looked at the abandoned chain; it is now collected at the end of such an execution and any stage starting then is reported"),
"C14-H": ("_run_cleanups iterates a reversed snapshot and clears the list afterwards", "a cleanup registered during the cleanup phase", "missed at first: cleanups were registered in setUp only; a behaviour that registers a further cleanup (from any stage, cleanups included) added"),
"C15-G": ("_restore_signals replaces a non-callable saved handler by SIG_DFL", "a signal whose disposition was SIG_IGN before run()", "caught by the check as it was"),
"C15-H": ("_fake_stop records an interruption also when the run is already over", "result delivered and reactor.stop() called in the same reactor call", "missed at first: stop never came after the result; added"),
"C16-G": ("Content.__eq__ compares piecewise, treating an empty piece as exhaustion", "an empty chunk followed by more data on one side", "caught by the check as it was"),
"C16-H": ("content_from_stream's buffer_now path ignores seek_whence", "buffer_now=True with an offset relative to the end", "missed at first only because the harness's stream raised on the bogus seek and that was taken for a harness error; a raising stream operation is now a finding"),
"C17-G": ("TFR.startTestRun aliases the run-level and test-level tag buffers + in-place merge", "startTestRun on the forwarder, first test changes tags inside the test, another test follows", "caught by the check as it was"),
"C17-H": ("MultiTestResult.tags dispatches only when its own tags changed", "MultiTestResult(Tagger(result, new, gone), sibling): a tags() call that is a no-op for the multiplexer but not behind the Tagger", "missed at first: no Tagger in front of a single member; configuration added with a per-branch model"),
"C18-G": ("router.status caches full route codes that had no prefix rule", "multi-segment code seen before its prefix rule is added, then again", "caught by the check as it was"),
"C18-H": ("add_rule registers the sink for start/stop before the policy method validates the rule", "an add_rule call the router refuses (two-segment prefix) with do_start_stop_run=True", "missed at first: every add_rule was valid; a refused one added"),
"C19-G": ("TestProgram keeps listtests/load_list ids as class-level state", "two in-process testtools.run invocations with different --load-list files", "caught by the check as it was"),
"C19-H": ("TestToolsTestRunner.list writes '\\n'.join(ids) + '\\n'", "a listing with zero tests (one blank line is printed)", "missed at first: the output was compared after split(); it is now compared line by line"),
"C20-G": ("extract_result re-raises with failure.getTracebackObject()", "a Deferred failed with a cleaned Failure", "missed at first: failures were fresh; a cleaned one added"),
"C20-H": ("SynchronousDeferredRunTest._run_user only unwraps results whose type is exactly Deferred", "a stage returning an already-fired instance of a Deferred subclass", "missed at first: plain Deferreds only; a subclass added (patch.diff is the change rebased onto the repaired tree)"),
}
for sid,(summary,needs,note) in S.items():
    f="/verif/seeded/%s/meta.json"%sid
    if os.path.exists(f):
        m=json.load(open(f)); m["summary"]=summary; m["needs_to_manifest"]=needs; m["note"]=note; m["wave"]=4
        m["caught_by_the_checks_as_they_were_when_the_change_was_written"]= note.startswith("caught by the check as it was")
        json.dump(m,open(f,"w"),indent=1)
print("ok")
