#!/usr/bin/env python3
"""Evaluate one seeded property-breaking change against the checks.

usage: try_seed.py <patch.diff> <demo.py|-> <check id> [<check id> ...] [--tier quick|thorough]

Applies the patch to /repo (git apply), confirms the pinned suite still passes and the
demonstration fails, runs the named checks, and ALWAYS restores /repo (git checkout -- .).
Prints a JSON summary; exit 0 iff the suite passed, the demo behaved, and at least one of the
named checks reported a VIOLATION.
"""
import json
import os
import subprocess
import sys

# The change is applied to a scratch worktree of /repo's HEAD (never to /repo itself), so that
# other checks can keep running against /repo meanwhile; ./check is pointed at it with VERIF_REPO.
SRC = "/repo"
REPO = os.environ.get("SEED_WORKTREE", "/tmp/vt-seed-worktree")
VERIF = os.path.dirname(os.path.dirname(os.path.abspath(__file__)))


def sh(cmd, cwd=None, env=None, timeout=3600):
    p = subprocess.run(cmd, cwd=cwd, env=env, shell=isinstance(cmd, str), stdout=subprocess.PIPE, stderr=subprocess.STDOUT, text=True, timeout=timeout)
    return p.returncode, p.stdout


def run_demo(demo):
    if demo == "-":
        return None
    env = dict(os.environ, PYTHONPATH=REPO, PYTHONDONTWRITEBYTECODE="1")
    # run the script without putting its own directory (a worktree with its own testtools) first:
    # neither implicitly (sys.path[0]) nor by the script's own sys.path.insert(0, <its directory>)
    import re
    import tempfile

    text = open(demo).read()
    text = re.sub(r"(?m)^(\s*)sys\.path\.insert\(0, os\.path\.dirname\(os\.path\.abspath\(__file__\)\)\)\s*$", r"\1pass", text)
    tmp = tempfile.NamedTemporaryFile("w", suffix=".py", prefix="vt-demo-", delete=False)
    tmp.write(text)
    tmp.close()
    demo = tmp.name
    code = "import runpy, sys; sys.argv=[%r]; runpy.run_path(%r, run_name='__main__')" % (demo, demo)
    rc, out = sh(["/venv/bin/python", "-c", code], cwd=REPO, env=env, timeout=600)
    os.unlink(demo)
    return rc


def main():
    args = sys.argv[1:]
    tier = "quick"
    if "--tier" in args:
        i = args.index("--tier")
        tier = args[i + 1]
        del args[i : i + 2]
    patch, demo, checks = args[0], args[1], args[2:]
    if not os.path.isdir(REPO):
        rc, out = sh(["git", "-C", SRC, "worktree", "add", "--detach", REPO, "HEAD"])
        if rc != 0:
            print(out)
            return 2
    head = sh(["git", "-C", SRC, "rev-parse", "HEAD"])[1].strip()
    sh(["git", "-C", REPO, "checkout", "-q", "--detach", head])
    rc, out = sh(["git", "-C", REPO, "status", "--porcelain"])
    if out.strip():
        print("refusing: /repo working tree is not clean:\n" + out)
        return 2
    summary = {"patch": patch, "tier": tier}
    rc, out = sh(["git", "-C", REPO, "apply", patch])
    if rc != 0:
        print("patch does not apply:\n" + out)
        return 2
    try:
        rc, out = sh(["python3", os.path.join(VERIF, "tools", "baseline.py"), REPO])
        summary["suite_passes_with_change"] = rc == 0
        summary["suite_line"] = [l for l in out.splitlines() if l.startswith("baseline:")][-1:]
        summary["demo_exit_with_change"] = run_demo(demo)
        detected = {}
        for cid in checks:
            env = dict(os.environ, VERIF_REPO=REPO, VERIF_OUT=REPO + "-out")
            rc, out = sh([os.path.join(VERIF, "check"), cid, "--tier", tier], cwd=VERIF, env=env, timeout=7200)
            v = [l for l in out.splitlines() if l.startswith("VIOLATION")]
            fps = [l.strip() for l in out.splitlines() if l.strip().startswith("fingerprint:")]
            detected[cid] = {"exit": rc, "violations": len(v), "fingerprints": fps[:4]}
        summary["checks"] = detected
    finally:
        sh(["git", "-C", REPO, "checkout", "--", "."])
        pass
    summary["demo_exit_without_change"] = run_demo(demo)
    rc, out = sh(["git", "-C", REPO, "status", "--porcelain"])
    summary["repo_clean_after"] = not out.strip()
    print(json.dumps(summary, indent=1))
    ok = summary["suite_passes_with_change"] and any(d["violations"] for d in summary["checks"].values())
    return 0 if ok else 1


if __name__ == "__main__":
    sys.exit(main())
