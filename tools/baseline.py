#!/usr/bin/env python3
"""Run the repository's pinned test suite (guard OFF) and compare with BASELINE.json.

usage: baseline.py [repo_dir]     exit 0 iff every stable_pass test passed.
"""
import json
import os
import subprocess
import sys
import tempfile
import xml.etree.ElementTree as ET

repo = sys.argv[1] if len(sys.argv) > 1 else "/repo"
base = json.load(open("/root/.vp/BASELINE.json"))
want = set(base["stable_pass"])
with tempfile.TemporaryDirectory() as td:
    xml = os.path.join(td, "junit.xml")
    env = dict(os.environ)
    env.pop("TESTTOOLS_VERIF", None)
    env["PYTHONDONTWRITEBYTECODE"] = "1"
    env["PYTHONPATH"] = repo
    p = subprocess.run(
        ["/venv/bin/python", "-m", "pytest", "-ra", "-q", "-p", "no:cacheprovider", "--timeout=900",
         "--continue-on-collection-errors", "--junitxml=" + xml],
        cwd=repo, env=env, stdout=subprocess.PIPE, stderr=subprocess.STDOUT, text=True)
    passed = set()
    for tc in ET.parse(xml).getroot().iter("testcase"):
        if not any(c.tag in ("failure", "error", "skipped") for c in tc):
            passed.add("%s::%s" % (tc.get("classname"), tc.get("name")))
missing = sorted(want - passed)
print("baseline: %d/%d stable tests passed (%d passed in total)" % (len(want & passed), len(want), len(passed)))
for m in missing[:40]:
    print("  NOT PASSING:", m)
sys.exit(1 if missing else 0)
