#!/usr/bin/env python3
"""Print the seeded-change table (markdown) from /verif/seeded/*/meta.json."""
import glob
import json
import os

VERIF = os.path.dirname(os.path.dirname(os.path.abspath(__file__)))
rows = []
for f in sorted(glob.glob(os.path.join(VERIF, "seeded", "*", "meta.json"))):
    m = json.load(open(f))
    det = [c for c, v in m.get("detected_by", {}).items() if v.get("violations")]
    miss = [c for c, v in m.get("detected_by", {}).items() if not v.get("violations")]
    fps = []
    for c in det:
        for fp in m["detected_by"][c].get("fingerprints", [])[:2]:
            fps.append(fp.replace("fingerprint: ", ""))
    rows.append((m["id"], m["breaks_property"], (m.get("summary") or m.get("needs_to_manifest", ""))[:160].replace("\n", " "), ", ".join(det) or "-", "; ".join(fps[:2]), m.get("note", "")))
print("| seed | property | change / what it needs | caught by | first fingerprints | note |")
print("|---|---|---|---|---|---|")
for r in rows:
    print("| %s | %s | %s | %s | %s | %s |" % r)
