import json,sys
prop,fp,commit,text,row=sys.argv[1:6]
p='/verif/known_findings.json'
d=json.load(open(p))
d['findings'].append({"property":prop,"status":"fixed","fingerprint":fp,"commit":commit,
 "record":f"fixed: property={prop} {commit} {text}","witness":{"fingerprint":fp}})
json.dump(d,open(p,'w'),indent=1); open(p,'a').write("\n")
s=open('/verif/DESIGN.md').read()
marker="| C10/C11/C18 (new) |"
i=s.index(marker); j=s.index("\n",i)
# insert after last table row: find end of table
k=j
while s[k+1]=="|":
    k=s.index("\n",k+1)
s=s[:k+1]+row+"\n"+s[k+1:]
open('/verif/DESIGN.md','w').write(s)
