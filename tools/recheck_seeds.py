#!/usr/bin/env python3
"""Re-run, for every stored seeded change, the checks recorded as catching it (quick tier) and
report the ones that no longer do.  Uses a scratch worktree of /repo's HEAD; never touches /repo.

usage: recheck_seeds.py [seed id ...]
"""
import glob
import json
import os
import subprocess
import sys

VERIF = os.path.dirname(os.path.dirname(os.path.abspath(__file__)))
WT = os.environ.get("SEED_WORKTREE", "/tmp/vt-recheck-worktree")


def sh(cmd, **kw):
    p = subprocess.run(cmd, stdout=subprocess.PIPE, stderr=subprocess.STDOUT, text=True, **kw)
    return p.returncode, p.stdout


def main():
    want = set(sys.argv[1:])
    if not os.path.isdir(WT):
        rc, out = sh(["git", "-C", "/repo", "worktree", "add", "--detach", WT, "HEAD"])
        if rc:
            print(out)
            return 2
    head = sh(["git", "-C", "/repo", "rev-parse", "HEAD"])[1].strip()
    sh(["git", "-C", WT, "checkout", "-q", "--detach", head])
    bad = []
    for f in sorted(glob.glob(os.path.join(VERIF, "seeded", "*", "meta.json"))):
        m = json.load(open(f))
        sid = m["id"]
        if want and sid not in want:
            continue
        if str(m.get("status", "")).startswith("retired"):
            print("%s retired" % sid)
            continue
        checks = [c for c, v in m.get("detected_by", {}).items() if v.get("violations")]
        if not checks:
            print("%s not caught by design (%s)" % (sid, m.get("note", "")[:60]))
            continue
        patch = os.path.join(os.path.dirname(f), "patch.diff")
        sh(["git", "-C", WT, "checkout", "--", "."])
        rc, out = sh(["git", "-C", WT, "apply", patch])
        if rc:
            print("%s PATCH DOES NOT APPLY: %s" % (sid, out.strip()[:200]))
            bad.append(sid)
            continue
        ok = False
        for c in checks:
            env = dict(os.environ, VERIF_REPO=WT, VERIF_OUT=WT + "-out")
            rc, out = sh([os.path.join(VERIF, "check"), c], cwd=VERIF, env=env, timeout=3600)
            if rc == 1 and "VIOLATION property=%s" % c in out:
                ok = True
                if os.environ.get("RECHECK_REPLAY"):
                    # the replay artefact must fail against the changed tree and pass against HEAD
                    rp = [l.split("replay=", 1)[1].strip() for l in out.splitlines() if l.startswith("VIOLATION")][0]
                    r1, o1 = sh([os.path.join(VERIF, "check"), c, "--replay", rp], cwd=VERIF, env=env, timeout=3600)
                    sh(["git", "-C", WT, "checkout", "--", "."])
                    r2, o2 = sh([os.path.join(VERIF, "check"), c, "--replay", rp], cwd=VERIF, env=env, timeout=3600)
                    if (r1, r2) != (1, 0):
                        print("%s REPLAY of %s: exit %s with the change, %s without" % (sid, os.path.basename(rp), r1, r2), flush=True)
                        bad.append(sid + ":replay")
                break
        print("%s %s" % (sid, "caught by " + c if ok else "MISSED (exit %s)" % rc), flush=True)
        if not ok:
            bad.append(sid)
    sh(["git", "-C", WT, "checkout", "--", "."])
    print("missed:", bad)
    return 1 if bad else 0


if __name__ == "__main__":
    sys.exit(main())
