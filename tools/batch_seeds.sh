#!/bin/sh
# usage: batch_seeds.sh C01 C03 ...   (property ids whose /tmp/mut/<id>/mut{A,B}.diff exist)
cd "$(dirname "$0")/.."
for id in "$@"; do
  for s in A B; do
    p=/tmp/mut/$id/mut$s.diff; d=/tmp/mut/$id/demo$s.py
    [ -f "$p" ] || continue
    [ -d seeded/$id-$s ] && [ -z "$FORCE" ] && { echo "$id-$s already stored"; continue; }
    out=$(python3 tools/keep_seed.py $id-$s $p $d - $id 2>&1 | grep -v conda)
    echo "== $id-$s: $(echo "$out" | tail -1)"
    echo "$out" | grep -E '"suite_passes|"demo_exit' | tr -d '\n'; echo
  done
done
