#!/bin/sh
# usage: [MUTDIR=/tmp/mut2 WAVE=2 FORCE=1] batch_seeds.sh C01 C03 ...
# Evaluates <MUTDIR>/<id>/mut{A,B}.diff with demo{A,B}.py against the check of that property.
# Wave 1 seeds are stored as <id>-A/-B, wave 2 as <id>-C/-D, wave 3 as -E/-F, wave 4 as -G/-H, wave 5 as -I/-J, wave 6 as -K/-L, wave 7 as -M/-N.
cd "$(dirname "$0")/.."
MUTDIR=${MUTDIR:-/tmp/mut}
WAVE=${WAVE:-1}
for id in "$@"; do
  for s in A B; do
    p=$MUTDIR/$id/mut$s.diff; d=$MUTDIR/$id/demo$s.py
    [ -f "$p" ] || continue
    t=$s
    if [ "$WAVE" = "2" ]; then [ "$s" = "A" ] && t=C || t=D; fi
    if [ "$WAVE" = "3" ]; then [ "$s" = "A" ] && t=E || t=F; fi
    if [ "$WAVE" = "4" ]; then [ "$s" = "A" ] && t=G || t=H; fi
    if [ "$WAVE" = "5" ]; then [ "$s" = "A" ] && t=I || t=J; fi
    if [ "$WAVE" = "6" ]; then [ "$s" = "A" ] && t=K || t=L; fi
    if [ "$WAVE" = "7" ]; then [ "$s" = "A" ] && t=M || t=N; fi
    [ -d seeded/$id-$t ] && [ -z "$FORCE" ] && { echo "$id-$t already stored"; continue; }
    out=$(python3 tools/keep_seed.py $id-$t $p $d - ${CHECKS:-$id} 2>&1 | grep -v conda)
    echo "== $id-$t: $(echo "$out" | tail -1)"
  done
done
