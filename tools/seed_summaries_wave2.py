import json, os
S = {
"C01-C": ("runtest.py _got_user_exception unpacks MultipleExceptions one level only", "a MultipleExceptions whose constituent is another MultipleExceptions carrying KeyboardInterrupt", "missed at first: no nested MultipleExceptions; kind added"),
"C01-D": ("ETOD._check_args: 'if err:' instead of 'is not None'", "a skip decorator with an empty reason (@skip(''), bare @unittest.skip)", "missed at first: decorators always had a reason; empty-reason decorators added"),
"C02-C": ("TestCase._reset empties _cleanups in place (clones made by copy.copy then share the list)", "two clones of one prototype with overlapping runs", "missed at first: single instances only; clones now run as two scheduled threads with stage bodies as scheduling points"),
"C02-D": ("_run_cleanups calls cleanups directly under 'except Exception'", "a cleanup raises a non-Exception while older cleanups are pending", "caught by the check as it was"),
"C03-C": ("_select_exception uses unittest.SkipTest instead of the case's skipException", "TestCase with a custom skipException, earlier failure, later custom skip", "missed at first: default skipException only; custom class added"),
"C03-D": ("handler lookup prefers an entry for the exact exception type anywhere in the list", "a catch-all (Exception, h) inserted at the front, or [Base, Derived] order", "missed at first: user handlers were for custom classes only; front catch-all added"),
"C04-C": ("ETOD.stop returns early when shouldStop is already true", "MultiTestResult members stopping unevenly (one failfast), bad outcome, then stop()", "missed at first: all underlying results had the same failfast; heterogeneous mode added"),
"C04-D": ("TFR.stop uses a non-blocking acquire and drops the request when busy", "stop() arrives while another thread holds the shared semaphore", "needs threads: not visible to C04's sequential histories, caught by C12 (2xctl harness) once the scheduler's semaphore modelled try-acquire"),
"C05-C": ("_got_user_exception unpacks MultipleExceptions one level only", "nested MultipleExceptions (fixture of fixtures)", "missed at first: no nesting and marker accounting was not injective; both fixed"),
"C05-D": ("addDetailUniqueName snapshots the content via gather_details", "a lazy mismatch detail whose bytes change between assertion and reporting", "missed at first: mismatch details were constant; a volatile one added"),
"C06-C": ("MismatchesAll becomes falsy when empty (+ 'if mismatch:' in combinators)", "AnyMatch on an empty collection / MatchesAny() nested in AllMatch, MatchesListwise, dict matchers", "missed at first: no nested collections; list-of-lists and dict-of-lists domains added"),
"C06-D": ("Raises only re-raises KeyboardInterrupt/SystemExit/GeneratorExit", "a callable raising another non-Exception BaseException", "missed at first: KeyboardInterrupt was the only non-Exception; a custom BaseException added"),
"C07-C": ("MismatchesAll becomes falsy when empty", "assertThat/expectThat without message on AnyMatch over an empty collection", "missed at first: assertions always carried a message (the annotation is truthy); message-less calls added"),
"C07-D": ("_report_traceback probes only the plain 'traceback' label", "two mismatches each carrying a 'traceback' detail, then an exception traceback", "C07 delegates detail naming to C05's accounting, which caught it after 'traceback' was added to expectThat's mismatch details"),
"C08-C": ("ETOD.addSkip pops 'reason' from the caller's details dict", "details-form skip, details-less target, a second consumer of the same dict", "caught by the check as it was"),
"C08-D": ("TagContext.change_tags removes gone before adding new", "one tags() call naming the same tag in new and gone", "NOT caught, by design: the properties quantify over tags(new, gone) with DISJOINT sets (C17); the outcome for overlapping sets is not specified"),
"C09-C": ("ETSD sends the skip reason with mime type text/plain (no charset)", "addSkip with a non-ASCII reason", "caught by the check as it was"),
"C09-D": ("Content._iter_text decodes chunk by chunk", "failing outcome with a text detail whose multi-byte character straddles a chunk boundary", "missed at first by C09 (C16 catches it); a split UTF-8 sequence added to C09's chunk lists"),
"C10-C": ("_update_case resets timestamps when 'inprogress' arrives for a record still 'unknown'", "record opened by a status-less event, then inprogress with another timestamp", "caught by the check as it was"),
"C10-D": ("StreamToExtendedDecorator.status no longer forwards route_code", "same test id open on two route codes at once", "caught by the check as it was"),
"C11-C": ("_strict_map uses any(map(...))", "a non-last target returning a truthy value", "missed at first: sinks returned None; a 'chatty' sink added"),
"C11-D": ("StreamTagger keeps add/discard as given (no frozenset)", "add/discard passed as one-shot iterators and >= 2 events", "missed at first: sets only; iterator-configured tagger added"),
"C12-C": ("TFR.shouldStop: acquire(False) ignored + unconditional release", "shouldStop read while another thread is inside a block", "missed at first: the scheduler's semaphore ignored blocking=False; try-acquire modelled"),
"C12-D": ("semaphore-guarded run-level calls lose their try/finally (contextmanager)", "target raises from startTestRun/stopTestRun/stop/done", "caught by the check as it was"),
"C13-C": ("ConcurrentTestSuite._run_test: queue.put no longer in finally", "worker run() fails and the broken-runner report raises too", "caught by the check as it was (deadlock)"),
"C13-D": ("ConcurrentStreamTestSuite keys its thread table by route code", "two workers sharing a route code (both None)", "missed at first: route codes were distinct; shared-code harnesses added"),
"C14-C": ("_run_deferred.clean_up_done: 'if result:'", "the last failing cleanup raises a falsy exception instance", "missed at first: exceptions were truthy; a falsy exception class added"),
"C14-D": ("Spinner: _cancel_timeout guarded by active() + _get_result prefers success", "chain completes in the same reactor iteration right after the timeout fired", "missed at first: ties at the timeout instant were accepted either way; the model now follows the recorded tie order"),
"C15-C": ("Spinner.run checks for stale junk after scheduling the timeout call", "a refused run (StaleJunkError), clear_junk, then a long run", "caught by the check as it was"),
"C15-D": ("Spinner restores reactor.stop with 'del' instead of the saved object", "reactor.stop already replaced on the reactor object before run()", "missed at first: reactor.stop was always the class's; a pre-installed wrapper added"),
"C16-C": ("one cached incremental decoder per charset (lru_cache)", "two text contents of the same charset decoded in lock-step", "missed at first: contents were decoded one at a time; lock-step decoding added"),
"C16-D": ("_iter_chunks stops at the first short read", "stream returning short reads before EOF", "caught by the check as it was (short reads are choice points)"),
"C17-C": ("TagContext.get_current_tags returns the live set", "a consumer retains the reported set and the reporter changes tags later", "missed at first: reported sets were compared at once and dropped; they are now retained and re-checked"),
"C17-D": ("TFR.tags decides 'inside a test' by _test_start again", "tags() between a test's outcome and its stopTest, then another test", "caught by the check as it was"),
"C18-C": ("router start/stop fan out over a snapshot of the sink list", "a rule registered from inside a sink's own start/stop callback", "missed at first: rules were only added between calls; a re-entrant scenario enumeration added"),
"C18-D": ("router.status consults test-id rules only for events without route code", "event whose first segment has no rule but whose id has one", "caught by the check as it was"),
"C19-C": ("_flatten_tests passes unpack_outer down the recursion", "a self-sorting custom suite containing another custom suite", "caught by the check as it was"),
"C19-D": ("--load-list lines are only stripped of '\\n'", "CRLF list files or ids padded with blanks", "missed at first: LF files only; CRLF and padded files added"),
"C20-C": ("succeeded(): errback traps only Exception", "Deferred failed with a non-Exception, inspected, dropped", "caught by the check as it was"),
"C20-D": ("failed(m): failure only marked handled when m matches", "failed(m) with rejecting m, Deferred dropped", "caught by the check as it was"),
}
for sid,(summary,needs,note) in S.items():
    f="/verif/seeded/%s/meta.json"%sid
    if os.path.exists(f):
        m=json.load(open(f)); m["summary"]=summary; m["needs_to_manifest"]=needs; m["note"]=note; m["wave"]=2
        m["caught_by_the_checks_as_they_were_when_the_change_was_written"]= note.startswith("caught by the check as it was")
        json.dump(m,open(f,"w"),indent=1)
print("ok")
