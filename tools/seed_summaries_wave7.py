import json, os
S = {
"C01-M": ("the RunTest object is kept on the case between runs and no longer empties its exception list per run", "the same TestCase run again after a run in which a stage raised, nothing raising this time", "missed at first: re-runs repeated the same decisions; C02 now adds a quiet third run of the same instance (caught there)"),
"C01-N": ("RunTest._run_user lost its positional-only marker", "a cleanup registered with a keyword argument named fn", "missed by C01 (no such keyword in its programs); caught by C02's keyword cleanup as it was"),
"C02-M": ("AsynchronousDeferredRunTest: after a failed setUp the cleanup phase's Deferred is no longer chained into the run", "setUp fails, a cleanup returns an unfired Deferred, older cleanups pending", "C02 drives the plain runner; caught by C14 as it was (patch rebased onto the repaired tree)"),
"C02-N": ("MonkeyPatcher.restore removes an attribute that did not exist with vars(obj).pop", "caught by the check as it was", "caught by the check as it was"),
"C03-M": ("the bound test method is looked up once in TestCase.__init__", "a copy made by clone_test_with_new_id whose body records its verdict on self (expectThat)", "missed by C03 (no clones there); caught by C02's overlapping-clones harness as it was"),
"C03-N": ("the unittest.expectedFailure wrapper catches BaseException", "caught by the check as it was", "caught by the check as it was"),
"C04-M": ("ExtendedToStreamDecorator._set_failfast removes the fail-fast sink with targets.pop()", "failfast = False assigned while it is off already", "missed at first: nothing was looked at behind the stream and failfast was only ever toggled; an extended result behind the stream and repeated assignments added"),
"C04-N": ("FixtureSuite.run runs its tests in a loop of its own", "real TestCases inside a FixtureSuite, a stop request, more tests after it", "missed at first: plain TestSuites only; a FixtureSuite nested in a plain suite added"),
"C05-M": ("useFixture rescues a failed fixture's details for Exception only", "a fixture overriding setUp() itself that is interrupted after attaching details", "missed at first: new-style fixtures failing with an Exception; an old-style fixture interrupted in setUp added"),
"C05-N": ("_details_to_str moves every detail whose name starts with the special name to the bottom, keeping one", "several tracebacks in one outcome, a result that takes text", "missed by C05 (extended results only); caught by C08's details-to-text containment as it was"),
"C06-M": ("AllMatch skips elements equal to one it has seen", "two equal elements that are different things (1 and 1.0) and an inner matcher that tells them apart", "missed at first: list values were homogeneous; [1, 1.0] added"),
"C06-N": ("AfterPreprocessing remembers the last value it preprocessed", "caught by the check as it was", "caught by the check as it was (a one-shot preprocessor leaf was added as well)"),
"C07-M": ("_format_matcher_dict sorts the expected dict's items by key", "an expected dict whose keys do not order among themselves, stringified", "missed at first: dict matchers had one key type; a two-type ContainsDict added"),
"C07-N": ("TestCase._matchHelper works out once which of the mismatch's detail names are taken", "a mismatch with details N and N-1 while the test has a detail N already", "missed by C07; C05's assertThat mismatch now carries foo and foo-1 (caught there)"),
"C08-M": ("Tagger keeps the caller's collections", "the caller re-uses or edits the collections it built the Tagger from", "missed at first: set literals nobody touched again; the harness now clears and refills them"),
"C08-N": ("ExtendedToOriginalDecorator caches the text of the last details dict by the dict's identity", "a reporter refilling one dict object for consecutive outcomes, a target without the details protocol", "missed at first: a fresh dict per outcome; one dict refilled per outcome now (the recorders copy what they are given)"),
"C08-O": ("ExtendedToOriginalDecorator.time(None) is not forwarded", "time(t) earlier in the run, time(None) later, TestByTestResult below", "missed at first: time(None) was never sent down an adapter stack; a third run doing so added"),
"C09-M": ("ExtendedToStreamDecorator inserts the fail-fast sink in front of the decorated stream", "failfast set to True and later to False on one converter", "missed by C09 (no failfast there); caught by C04's extended result behind the stream"),
"C09-N": ("ExtendedToOriginalDecorator drops a time() equal to the last one it forwarded, across runs", "a second run whose first supplied time equals the last one of the run before", "missed at first; a fourth run starting with the third's last time added"),
"C10-M": ("attachment chunks are kept in a class-level dict keyed by file name", "caught by the check as it was", "caught by the check as it was"),
"C10-N": ("_update_case returns early for an empty chunk, before the tags", "an event carrying new tags together with an empty chunk", "missed at first: empty chunks came without tags; such an event added to the alphabet"),
"C11-M": ("StreamTagger remembers (last tag object, computed set)", "one set object passed on consecutive calls and changed in between", "missed at first: a fresh tag set per event; a producer re-using one set added for every tree"),
"C11-N": ("TimestampingStreamResult skips single-target copy hops, a StreamTagger included", "caught by the check as it was", "caught by the check as it was"),
"C12-M": ("stopTest is sent after the semaphore has been released", "caught by the check as it was", "caught by the check as it was"),
"C12-N": ("per-test state is reset in startTest, the stopTest override is gone", "an outcome reported without startTest right after a test with its own start time and tags", "missed at first by C12 (C17 caught it): a lone outcome after a full test added to one script"),
"C13-M": ("ThreadsafeForwardingResult: stopTest no longer in a finally", "caught by the check as it was", "caught by the check as it was"),
"C13-N": ("worker threads read the loop variables when they start", "caught by the check as it was", "caught by the check as it was"),
"C14-M": ("a cleanup's skip is recorded without marking the run as failed", "caught by the check as it was", "caught by the check as it was (patch applies to the repaired _run_cleanups)"),
"C14-N": ("the Deferred's final callback stops the reactor without looking whether it belongs to this run", "test N interrupted with its Deferred unfired, the Deferred fires during test N+1", "missed by C14; caught by C15's late-firing histories as they were"),
"C15-M": ("_fake_stop cancels the timeout and _clean no longer touches it", "the reactor stopped behind the Spinner's back (reactor.crash)", "missed at first: every stop went through the patched reactor.stop; a function scheduling reactor.crash added"),
"C15-N": ("_clean is skipped when the result is a BaseException that is not an Exception", "the function raises SystemExit and leaves something behind", "missed at first: functions raised Exceptions only; one raising SystemExit added"),
"C16-M": ("content_from_reader with buffer_now joins what it read into one blob", "caught by the check as it was", "caught by the check as it was"),
"C16-N": ("Content.__eq__ requires the same class", "a Content subclass instance compared with a plain Content", "missed at first: plain Contents only; subclass instances added to the pairs"),
"C17-M": ("TagContext children keep a hidden set instead of a copy of the parent's tags", "caught by the check as it was", "caught by the check as it was"),
"C17-N": ("one ThreadsafeForwardingResult for all workers of a ConcurrentTestSuite", "two workers, one inside a tagged test while the other reports", "the tag clause of a schedule: caught by C13 as it was"),
"C18-M": ("the route code is read before positional arguments are folded into keywords", "caught by the check as it was", "caught by the check as it was"),
"C18-N": ("the list of started sinks is never cleared", "caught by the check as it was", "caught by the check as it was"),
"C18-O": ("the prefix is taken with rsplit", "caught by the check as it was", "caught by the check as it was"),
"C19-M": ("FixtureSuite gets a filter_by_ids that rebuilds it from its leaves", "caught by the check as it was", "caught by the check as it was"),
"C19-N": ("--load-list: the result of filter_by_ids is not assigned back", "the program given a module whose load_tests returns a single test or a suite that filters by copying", "missed at first: tests were always named on the command line (wrapped in a plain suite); TestProgram(module=...) added - which exposed a defect of the unmodified tree"),
"C20-M": ("_got_user_failure reports a FirstError's child failure instead", "a stage returning gatherResults / DeferredList with a failed child", "missed at first; a stage raising FirstError added to the synchronous differential"),
"C20-N": ("on_deferred_result compares the probe's value with its sentinel by ==", "a Deferred fired with a value that compares equal to everything", "missed at first; such a firing value added"),
"C04-O": ("TextTestResult prints no section for a problem whose details render to nothing", "caught by the check as it was", "caught by the check as it was"),
}
for sid,(summary,needs,note) in S.items():
    f="/verif/seeded/%s/meta.json"%sid
    if os.path.exists(f):
        m=json.load(open(f)); m["summary"]=summary; m["note"]=note; m["wave"]=7
        if not needs.startswith("caught by the check"):
            m["needs_to_manifest"]=needs
        m["caught_by_the_checks_as_they_were_when_the_change_was_written"]= note.startswith("caught by the check as it was")
        json.dump(m,open(f,"w"),indent=1)
print("ok")
