import json, os
S = {
"C01-K": ("the forced failure is raised once after _run_core instead of inside it", "a class-level force_failure on a test that carries a skip decorator", "missed at first: force_failure and decorators were never combined; skip/skip-class/expected-failure decorators with force_failure added"),
"C01-L": ("TestCase._reset empties the cleanup list in place instead of rebinding it", "clones of one prototype (clone_test_with_new_id) run in overlapping fashion", "missed by C01 (one case per execution); caught by C02's overlapping-clones harness as it was"),
"C02-K": ("MonkeyPatcher treats a falsy value in the object's own namespace as absent", "patching a class attribute that overrides a base class's with a falsy value", "missed at first: the patched class attributes were all truthy; an overriding 'limit = 0' added"),
"C02-L": ("TestCase.run only resets the case when it has been run before", "caught by the check as it was", "caught by the check as it was"),
"C03-K": ("RunTest._run_cleanups: 'failing' is the verdict of the last cleanup only", "caught by the check as it was", "caught by the check as it was"),
"C03-L": ("_run_user catches (Exception, KeyboardInterrupt, SystemExit) instead of BaseException", "user code raising another BaseException subclass that has its own handler in exception_handlers", "missed at first: custom exception classes all derived from Exception; a BaseException subclass with a user handler added"),
"C04-K": ("CopyStreamResult forwards to the targets it had at startTestRun", "failfast switched on or off on an ExtendedToStreamDecorator while a run is under way", "missed at first: failfast was set before the run only; failfast_on/failfast_off operations added for the stream decorator"),
"C04-L": ("ThreadsafeForwardingResult.shouldStop is a value cached at the forwarder's own last contact with the target", "stop() (or a fail-fast stop) arriving through another worker's forwarder", "missed at first: one forwarder per stack; a sibling forwarder on the same target and its stop() added"),
"C05-K": ("RunTest._run_cleanups takes a snapshot of the cleanup list and runs that", "a cleanup that registers a further cleanup", "missed by C05 (no cleanup-registered cleanups there); caught by C02 as it was"),
"C05-L": ("_report_skip: a falsy first argument of the skip exception is replaced by 'no reason given.'", "skipTest(reason) with a falsy reason that has a text of its own", "missed at first: skip reasons were non-empty strs; a falsy reason object added as a behaviour"),
"C06-K": ("Not.match tests isinstance(mismatch, Mismatch) instead of 'is None'", "caught by the check as it was", "caught by the check as it was"),
"C06-L": ("MatchesRegex compiles through a module-level cache keyed by the pattern alone", "the same pattern used with different flags in one process", "missed at first: every pattern appeared with one flag set; MatchesRegex('A') next to MatchesRegex('A', re.I) added"),
"C07-K": ("MismatchError.__str__ formats matchee and matcher with an f-string and the difference with %", "caught by the check as it was", "caught by the check as it was"),
"C07-L": ("MatchesListwise derives from Matcher without defining __str__", "caught by the check as it was", "caught by the check as it was"),
"C08-K": ("ExtendedToOriginalDecorator.done() falls back to stopTestRun() when the wrapped result has no done()", "done() after stopTestRun on a result without done()", "missed at first: the run bracket was not counted at the targets; start/stop counts added"),
"C08-L": ("TestByTestResult clamps the stop time to the start time", "the clock set back inside a test (time() may go backwards)", "missed at first: ascending times only; the second test's clock is now set back"),
"C09-K": ("ExtendedToStreamDecorator caches rendered mime types by id(content_type) for a run", "content types built on the spot by each test, the next one allocated at the address of a dead one", "missed at first: the content types were module-level constants; fresh content types at a dead one's address added (the harness insists on the address being reused and counts it)"),
"C09-L": ("ExtendedToStreamDecorator.time(None) is ignored", "time(t) followed by time(None) within one run", "missed at first: time(None) was never called; a third run that withdraws its time added"),
"C10-K": ("_StreamToTestRecord drops status-less events of a test that has been reported", "caught by the check as it was", "caught by the check as it was"),
"C10-L": ("a fast path reports an 'exists' event without looking at its file chunk", "an 'exists' final that carries tags and an attachment itself", "missed at first: 'exists' events never carried a file; fixed histories with such events added"),
"C11-K": ("StreamToQueue clears eof and mime_type of events without file_name", "an event with eof/mime_type set and no file", "missed at first: eof and mime type only occurred together with a file; one such event added"),
"C11-L": ("TimestampingStreamResult stamps datetime.now() labelled as UTC", "a local time zone that is not UTC", "missed at first: the sandbox's local time is UTC; the checks now run in a non-UTC POSIX time zone"),
"C12-K": ("ExtendedToOriginalDecorator._check_args tests bool(err)", "addSkip with an empty reason through the forwarder", "missed at first by C12 (C08's and C01's empty reasons catch the same edit): the harness's skip reason is now the empty string"),
"C12-L": ("ThreadsafeForwardingResult drops outcomes once the target wants to stop", "caught by the check as it was", "caught by the check as it was"),
"C13-K": ("TagContext.get_current_tags returns the live set", "tags changed after an event that carries them was handed on (a queue, an event log)", "missed by C13 (its workers use no tags); caught by C09 ('late' tags) and C17 (retroactive change of reported tag sets) as they were"),
"C13-L": ("ConcurrentTestSuite's abort path stops the caller's result instead of the workers' forwarders", "caught by the check as it was", "caught by the check as it was"),
"C14-K": ("AsynchronousDeferredRunTest: 'timeout or DEFAULT_TIMEOUT'", "a timeout of 0", "missed at first: no zero timeout, no check of when a timed-out run ends, and the virtual reactor snapped the 0.005 default onto its 0.5 grid; all three changed"),
"C14-L": ("TimeoutError is only reported when no stage has reported an exception yet", "caught by the check as it was", "caught by the check as it was"),
"C15-K": ("Spinner._timed_out crashes the reactor without clearing the spinning flag", "a slow callback overruns the timeout and a stop request, both then run in one reactor pass", "missed at first: the virtual clock never overran two due times at once; a busy callback that advances the clock added"),
"C15-L": ("not_reentrant keeps its flag per instance", "Spinner.run from within Spinner.run through a second Spinner on the same reactor", "missed at first: re-entry was only tried on the same object; a second Spinner added"),
"C16-K": ("json_content serialises when the content is read", "the data mutated after json_content() returned", "missed at first: the input was never touched afterwards; now it is"),
"C16-L": ("Content.as_text caches its first answer", "a content over a source that grows", "missed at first: as_text was read once per content; read twice around a change of the source now"),
"C17-K": ("TestResult.addSkip opens a tag scope when none is open", "a lone addSkip (setUpClass skipping) with neither startTest nor stopTest", "missed at first: the startTest-less skip always came with its stopTest; the lone class-level skip added"),
"C17-L": ("_merge_tags returns the caller's sets when nothing is buffered", "the caller goes on using the sets it passed to tags()", "missed at first: fresh sets were passed and forgotten; the harness now clears and refills them after the call"),
"C18-K": ("StreamResultRouter looks the test id up before the route code", "caught by the check as it was", "caught by the check as it was"),
"C18-L": ("StreamResultRouter: 'if fallback and do_start_stop_run'", "caught by the check as it was", "caught by the check as it was"),
"C19-K": ("filter_by_ids replaces changed entries by tests.index(item)", "stdlib TestCase clones with ids of their own, which compare equal", "missed at first: the real-TestCase leaves were testtools TestCases (equality includes the id); they are stdlib TestCases now"),
"C19-L": ("iterate_tests walks the tree breadth-first", "caught by the check as it was", "caught by the check as it was"),
"C20-K": ("extract_result indexes its result lists inside try/except IndexError", "a Deferred that failed with an IndexError", "missed at first: the failures were plain Exception subclasses; one now derives from IndexError"),
"C20-L": ("RunTest.exception_caught is one class-level sentinel and the sync runner reads results without consuming them", "one canned failed Deferred returned by two tests run one after the other", "missed at first: every stage made its own Deferred; a shared canned Deferred scenario added"),
}
for sid,(summary,needs,note) in S.items():
    f="/verif/seeded/%s/meta.json"%sid
    if os.path.exists(f):
        m=json.load(open(f)); m["summary"]=summary; m["note"]=note; m["wave"]=6
        if not needs.startswith("caught by the check"):
            m["needs_to_manifest"]=needs
        m["caught_by_the_checks_as_they_were_when_the_change_was_written"]= note.startswith("caught by the check as it was")
        json.dump(m,open(f,"w"),indent=1)
print("ok")
