#!/usr/bin/env python3
"""Regenerate MANIFEST.json from the table below (run from /verif)."""
import importlib
import json
import os
import sys

sys.path.insert(0, os.path.dirname(os.path.dirname(os.path.abspath(__file__))))

ENGINES = {
    "A": ("program/fault-sequence DFS", "vt/proggen.py + vt/explore/chooser.py",
          "stateless depth-first exploration of stage-behaviour choice points on generated TestCase programs (real RunTest), lifecycle reference model"),
    "B": ("history BFS", "vt/explore/bfs.py",
          "explicit-state breadth-first search over API-call histories replayed on fresh real objects, canonical-state merging, reference model per step"),
    "C": ("thread scheduler DFS", "vt/explore/sched.py",
          "CHESS-style baton-passing scheduler for real Python threads, preemption-bounded exhaustive interleaving exploration, deadlock detection"),
    "D": ("virtual-time reactor", "vt/explore/vreactor.py",
          "deterministic virtual-clock Twisted reactors; tie order and interrupt instants are choice points"),
    "E": ("bounded input enumeration", "vt/explore/enumerate.py",
          "complete enumeration of an input space up to a size bound against a reference denotation"),
}

# id -> (engine, design_ref, level text, level_note)
CHECKS = {}

def load_checks():
    props = [json.loads(l) for l in open("properties.jsonl")]
    checks, na = [], []
    for p in props:
        pid = p["id"]
        modname = "vt.props.%s" % pid.lower()
        path = os.path.join("vt", "props", pid.lower() + ".py")
        if not os.path.exists(path):
            na.append({"property_id": pid, "reason": "check not built yet in this revision of /verif (see DESIGN.md section 5 for the planned exploration); not claimed"})
            continue
        src = open(path).read()
        ns = {}
        # read the MANIFEST_INFO literal without importing testtools
        start = src.find("MANIFEST_INFO = ")
        if start < 0:
            raise SystemExit("%s has no MANIFEST_INFO" % path)
        import ast
        tree = ast.parse(src)
        info = None
        for node in tree.body:
            if isinstance(node, ast.Assign) and getattr(node.targets[0], "id", None) == "MANIFEST_INFO":
                info = ast.literal_eval(node.value)
        checks.append({
            "property_id": pid,
            "quick_cmd": "./check %s --tier quick" % pid,
            "thorough_cmd": "./check %s --tier thorough" % pid,
            "evidence_file": "/verif/evidence/%s.json" % pid,
            "replay_cmd_template": "./check %s --replay {path}" % pid,
            "engine": ENGINES[info["engine"]][0],
            "level_claimed": {"category": "model_checking", "text": info["level_text"], "design_ref": info["design_ref"]},
            "level_note": info["level_note"],
            "technique": info["technique"],
        })
    return checks, na

def main():
    checks, na = load_checks()
    served = {}
    for c in checks:
        served.setdefault(c["engine"], []).append(c["property_id"])
    man = {
        "version": 1,
        "setup_cmd": "/venv/bin/python -c 'import testtools, twisted, fixtures' && chmod +x /verif/check",
        "hooks": {
            "guard": "TESTTOOLS_VERIF",
            "enable": "no source hooks: all instrumentation is applied from /verif at run time (module-attribute replacement, injected semaphores/reactors/results); ./check exports TESTTOOLS_VERIF=1 for uniformity",
            "baseline_off_cmd": "python3 /verif/tools/baseline.py /repo",
            "source_commits": [],
            "add_only": True,
        },
        "engines": [
            {"name": v[0], "path": v[1], "serves_properties": served.get(v[0], []), "kind_free_text": v[2]}
            for k, v in ENGINES.items()
        ],
        "checks": checks,
        "not_applicable": na,
        "notes": "All checks run the code of /repo's working tree through /venv's editable install (no build step). Genuine defects found are in /verif/known_findings.json (fixed: entries name the fix commit).",
    }
    json.dump(man, open("MANIFEST.json", "w"), indent=1)
    print("MANIFEST.json: %d checks, %d not_applicable" % (len(checks), len(na)))

main()
