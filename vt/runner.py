"""Shard runner, result merging, evidence and findings handling.

A property module ``vt.props.cNN`` exposes

    PROPERTY = "CNN"
    def shards(tier): -> list of picklable shard descriptors
    def run_shard(shard, tier, seed): -> ShardResult
    def meta(tier): -> dict(rule=..., bounds=..., assumptions=[...], technique=...)
    def replay(data): -> (ok: bool, text)        # sequential replay of one violation

The CLI distributes shards over a process pool, merges the results, matches
violations against /verif/known_findings.json, writes replays and evidence.
"""

import json
import multiprocessing
import os
import sys
import time
import traceback

ROOT = os.path.dirname(os.path.dirname(os.path.abspath(__file__)))
# VERIF_OUT redirects run-time output (evidence, replays) for experiments such as seeded-change
# runs against a scratch worktree; registered commands never set it.
_OUT = os.environ.get("VERIF_OUT") or ROOT
EVIDENCE_DIR = os.path.join(_OUT, "evidence")
REPLAY_DIR = os.path.join(_OUT, "replays")
FINDINGS_FILE = os.path.join(ROOT, "known_findings.json")

MAX_SAMPLES = 6
MAX_VIOL_PER_FP = 3


class ShardResult:
    """Counters kept by an engine while exploring one shard."""

    def __init__(self):
        self.states = 0
        self.transitions = 0
        self.evaluations = 0
        self.traces_validated = 0
        self.distinct = set()  # 64-bit hashes of non-trivial observations
        self.samples = []
        self.violations = []  # dicts: fingerprint, message, replay (json-able)
        self.extra = {}  # additive integer counters
        self.notes = {}  # max-merged values (bounds reached)
        self.caps_hit = []

    def add_sample(self, s):
        if len(self.samples) < MAX_SAMPLES:
            self.samples.append(s)

    def violation(self, fingerprint, message, replay):
        n = sum(1 for v in self.violations if v["fingerprint"] == fingerprint)
        if n < MAX_VIOL_PER_FP:
            self.violations.append(
                {"fingerprint": fingerprint, "message": message, "replay": replay}
            )
        self.extra["violating_cases"] = self.extra.get("violating_cases", 0) + 1

    def count(self, key, n=1):
        self.extra[key] = self.extra.get(key, 0) + n

    def merge(self, other):
        self.states += other.states
        self.transitions += other.transitions
        self.evaluations += other.evaluations
        self.traces_validated += other.traces_validated
        self.distinct |= other.distinct
        for s in other.samples:
            self.add_sample(s)
        for v in other.violations:
            n = sum(1 for w in self.violations if w["fingerprint"] == v["fingerprint"])
            if n < MAX_VIOL_PER_FP:
                self.violations.append(v)
        for k, v in other.extra.items():
            self.extra[k] = self.extra.get(k, 0) + v
        for k, v in other.notes.items():
            if k in self.notes and isinstance(v, (int, float)):
                self.notes[k] = max(self.notes[k], v)
            else:
                self.notes[k] = v
        self.caps_hit.extend(other.caps_hit)


def _worker(args):
    modname, shard, tier, seed = args
    import gc
    import importlib

    try:
        mod = importlib.import_module(modname)
        res = mod.run_shard(shard, tier, seed)
        return ("ok", res)
    except BaseException:
        return ("err", "shard %r: %s" % (shard, traceback.format_exc()))
    finally:
        gc.collect()


def load_findings():
    if not os.path.exists(FINDINGS_FILE):
        return []
    with open(FINDINGS_FILE) as f:
        return json.load(f).get("findings", [])


def run_property(mod, tier, seed, jobs=None):
    t0 = time.time()
    prop = mod.PROPERTY
    if hasattr(mod, "run_main"):
        # the module drives its own (level-synchronous, parallel) exploration
        try:
            total = mod.run_main(tier, seed)
        except BaseException:
            sys.stderr.write("HARNESS-ERROR %s\n" % traceback.format_exc())
            return 2
        return finish(mod, total, tier, seed, time.time() - t0, nshards=1)
    shards = list(mod.shards(tier))
    # VERIF_SEED permutes the order in which shards are explored (never whether)
    import random

    random.Random(seed).shuffle(shards)
    jobs = jobs or int(os.environ.get("VERIF_JOBS", "0")) or min(16, os.cpu_count() or 1)
    total = ShardResult()
    errors = []
    work = [(mod.__name__, s, tier, seed) for s in shards]
    if jobs <= 1 or len(shards) <= 1:
        for status, res in map(_worker, work):
            if status == "ok":
                total.merge(res)
            else:
                errors.append(res)
    else:
        # (an executor, not multiprocessing.Pool: a Pool whose worker is killed - by the kernel's
        # OOM killer, say - waits for the lost task for ever; the executor reports it)
        import concurrent.futures as cf

        ctx = multiprocessing.get_context("fork")
        with cf.ProcessPoolExecutor(min(jobs, len(shards)), mp_context=ctx) as ex:
            futs = [ex.submit(_worker, w) for w in work]
            for fut in cf.as_completed(futs):
                try:
                    status, res = fut.result()
                except cf.process.BrokenProcessPool:
                    errors.append("a worker process died abruptly (killed? out of memory?): the exploration is incomplete")
                    break
                except BaseException:
                    errors.append(traceback.format_exc())
                    continue
                if status == "ok":
                    total.merge(res)
                else:
                    errors.append(res)
    wall = time.time() - t0
    if errors:
        for e in errors[:5]:
            sys.stderr.write("HARNESS-ERROR %s\n" % e)
        return 2
    return finish(mod, total, tier, seed, wall, nshards=len(shards))


def finish(mod, total, tier, seed, wall, nshards):
    prop = mod.PROPERTY
    meta = mod.meta(tier)
    findings = [f for f in load_findings() if f.get("property") == prop]
    open_fps = {f["fingerprint"]: f for f in findings if f.get("status") == "open"}
    seen_known = {}
    new = []
    for v in total.violations:
        if v["fingerprint"] in open_fps:
            seen_known.setdefault(v["fingerprint"], v)
        else:
            new.append(v)
    os.makedirs(EVIDENCE_DIR, exist_ok=True)
    rc = 0
    for fp, v in sorted(seen_known.items()):
        print("KNOWN-FINDING: property=%s %s -- %s" % (prop, fp, open_fps[fp].get("what", v["message"])))
    for fp, f in sorted(open_fps.items()):
        if fp not in seen_known:
            # finding no longer reproduces: report (not a violation), so it is noticed
            print("NOTE: property=%s listed finding %s did not reproduce in this run" % (prop, fp))
    if new:
        rc = 1
        d = os.path.join(REPLAY_DIR, prop)
        os.makedirs(d, exist_ok=True)
        shown = set()
        for v in new:
            name = "%s.json" % _slug(v["fingerprint"])
            path = os.path.join(d, name)
            if v["fingerprint"] in shown:
                continue
            shown.add(v["fingerprint"])
            with open(path, "w") as f:
                json.dump(
                    {"property": prop, "fingerprint": v["fingerprint"], "message": v["message"], "replay": v["replay"]},
                    f,
                    indent=1,
                    default=repr,
                )
            print("VIOLATION property=%s replay=%s" % (prop, path))
            print("  fingerprint: %s" % v["fingerprint"])
            print("  %s" % v["message"].replace("\n", "\n  "))
    if total.notes.get("states_are_distinct"):
        # shards started from different prefixes can reach the same canonical state:
        # report the number of distinct canonical states (plus the initial one)
        total.states = len(total.distinct) + 1
    cov = {
        "states": total.states,
        "transitions": total.transitions,
        "traces_validated_against_impl": total.traces_validated,
        "evaluations": total.evaluations,
        "distinct_nontrivial": len(total.distinct),
        "rule": meta.get("rule", ""),
        "samples": total.samples[:MAX_SAMPLES] or ["(none)"],
        "exhaustive": not total.caps_hit,
        "bounds": meta.get("bounds", {}),
        "caps_hit": total.caps_hit,
        "shards": nshards,
        "counters": total.extra,
        "notes": total.notes,
        "known_findings_seen": sorted(seen_known),
        "technique": meta.get("technique", ""),
    }
    ev = {
        "property_id": prop,
        "tier": tier,
        "seed": int(seed),
        "level": "model_checking",
        "coverage": cov,
        "assumptions": meta.get("assumptions", []),
        "wall_s": round(wall, 3),
        "violations": len(new),
    }
    with open(os.path.join(EVIDENCE_DIR, "%s.json" % prop), "w") as f:
        json.dump(ev, f, indent=1, default=repr)
    print(
        "%s tier=%s seed=%s states=%d transitions=%d evaluations=%d distinct_nontrivial=%d "
        "violating_cases=%d new_violations=%d known=%d wall=%.1fs%s"
        % (
            prop,
            tier,
            seed,
            total.states,
            total.transitions,
            total.evaluations,
            len(total.distinct),
            total.extra.get("violating_cases", 0),
            len(new),
            len(seen_known),
            wall,
            " CAPS=%s" % total.caps_hit if total.caps_hit else "",
        )
    )
    return rc


def _slug(s):
    out = "".join(c if c.isalnum() or c in "-_." else "_" for c in s)
    return out[:120]
