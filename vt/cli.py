"""./check <ID> [--tier quick|thorough] [--replay PATH] [--jobs N]"""

import argparse
import importlib
import json
import os
import sys


def main(argv=None):
    ap = argparse.ArgumentParser(prog="check")
    ap.add_argument("prop")
    ap.add_argument("--tier", default=os.environ.get("VERIF_TIER", "quick"), choices=["quick", "thorough"])
    ap.add_argument("--replay", default=None)
    ap.add_argument("--jobs", type=int, default=None)
    args = ap.parse_args(argv)
    prop = args.prop.upper()
    seed = int(os.environ.get("VERIF_SEED", "0") or 0)
    try:
        mod = importlib.import_module("vt.props.%s" % prop.lower())
    except ImportError as e:
        sys.stderr.write("no check for %s: %s\n" % (prop, e))
        return 2
    if args.replay:
        with open(args.replay) as f:
            data = json.load(f)
        ok, text = mod.replay(data["replay"])
        print(text)
        if not ok:
            print("VIOLATION property=%s replay=%s" % (prop, args.replay))
            return 1
        print("replay: property held")
        return 0
    from vt import runner

    return runner.run_property(mod, args.tier, seed, jobs=args.jobs)


if __name__ == "__main__":
    sys.exit(main())
