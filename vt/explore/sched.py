"""Engine C: controlled scheduler for real Python threads (CHESS style).

Every task is a real ``threading.Thread`` that only runs while it holds the
baton; exactly one task runs at a time.  Visible operations (semaphore, queue,
thread start/join, calls on shared objects) call ``sched.point()`` first; the
chooser decides which enabled task continues.  Switching away from a task that
could continue costs one preemption.  Blocking operations disable the task
until their condition holds; no enabled task while some task is unfinished is a
deadlock.
"""

import _thread
import threading as _real_threading
import time as _time


def _locked_lock():
    l = _thread.allocate_lock()
    l.acquire()
    return l


class _RawThread:
    """Minimal thread handle on top of _thread (much cheaper than threading.Thread)."""

    def __init__(self, target, args):
        self._target = target
        self._args = args
        self._done = _locked_lock()
        self.ident = None

    def start(self):
        self.ident = _thread.start_new_thread(self._run, ())

    def _run(self):
        try:
            self._target(*self._args)
        finally:
            self._done.release()

    def join(self, timeout=5.0):
        if self._done.acquire(True, timeout):
            self._done.release()

    def is_alive(self):
        return self._done.locked()

PREEMPT = (1, 0)
FAULT = (0, 1)
FREE = (0, 0)


class SchedulerAbort(BaseException):
    """Raised inside tasks to unwind them after a deadlock / horizon overrun."""


class HarnessTimeout(Exception):
    pass


class Task:
    def __init__(self, sched, tid, fn, name):
        self.sched = sched
        self.id = tid
        self.fn = fn
        self.name = name
        self.baton = _locked_lock()
        self.started = False
        self.finished = False
        self.blocked_on = None  # callable -> bool, or None
        self.blocked_label = None
        self.thread = None
        self.exc = None

    def enabled(self):
        if not self.started or self.finished:
            return False
        return self.blocked_on is None or self.blocked_on()

    def __repr__(self):
        return "<task %d %s>" % (self.id, self.name)


class Scheduler:
    def __init__(self, chooser, horizon=5000, timeout=300.0, exit_points=True):
        self.exit_points = exit_points
        self.chooser = chooser
        self.tasks = []
        self.current = None
        self.horizon = horizon
        self.timeout = timeout
        self.steps = 0
        self.aborting = False
        self.deadlock = None  # description when detected
        self.livelock = False
        self.done = _locked_lock()
        self.trace = []  # (task id, label) for every visible operation executed
        self.preemptions = 0

    # -- task management ----------------------------------------------------
    def new_task(self, fn, name):
        t = Task(self, len(self.tasks), fn, name)
        self.tasks.append(t)
        t.thread = _RawThread(self._task_main, (t,))
        return t

    def _task_main(self, t):
        t.baton.acquire()
        try:
            if not self.aborting:
                t.fn()
                if t.id != 0 and self.exit_points:
                    # thread termination is visible (join observes it): others may run first
                    self.point("thread.exit")
        except SchedulerAbort:
            pass
        except BaseException as e:  # the task body is expected to catch its own exceptions
            t.exc = e
        finally:
            t.finished = True
            self._task_exit(t)

    def _task_exit(self, t):
        if self.aborting:
            self._maybe_done()
            return
        enabled = [x for x in self.tasks if x.enabled()]
        if not enabled:
            unfinished = [x for x in self.tasks if x.started and not x.finished]
            if unfinished:
                self._start_abort("deadlock: %s" % ", ".join("%r blocked on %s" % (x, x.blocked_label) for x in unfinished))
            self._maybe_done()
            return
        idx = self.chooser.choose(("exit", t.id), len(enabled), [FREE] * len(enabled)) if len(enabled) > 1 else 0
        nxt = enabled[idx]
        self.current = nxt
        nxt.baton.release()

    def _maybe_done(self):
        if all(x.finished or not x.started for x in self.tasks):
            try:
                self.done.release()
            except RuntimeError:
                pass

    def _start_abort(self, why):
        if self.aborting:
            return
        self.aborting = True
        self.deadlock = self.deadlock or why
        for x in self.tasks:
            if x.started and not x.finished and x is not self.current_thread_task():
                try:
                    x.baton.release()
                except RuntimeError:
                    pass

    def current_thread_task(self):
        ident = _thread.get_ident()
        for x in self.tasks:
            if x.thread.ident == ident:
                return x
        return None

    # -- running ------------------------------------------------------------
    def execute(self, main_fn):
        """Run main_fn as task 0 under the scheduler; returns when all tasks finished."""
        t = self.new_task(main_fn, "main")
        t.started = True
        self.current = t
        t.thread.start()
        t.baton.release()
        if not self.done.acquire(True, self.timeout):
            self.aborting = True
            for x in self.tasks:
                try:
                    x.baton.release()
                except RuntimeError:
                    pass
            raise HarnessTimeout("scheduler did not finish within %ss (trace tail %r)" % (self.timeout, self.trace[-10:]))
        for x in self.tasks:
            if x.thread.is_alive():
                x.thread.join(5.0)
        return t

    # -- scheduling points ----------------------------------------------------
    def _switch(self, me, nxt):
        self.current = nxt
        nxt.baton.release()
        me.baton.acquire()
        if self.aborting:
            raise SchedulerAbort()

    def point(self, label, cond=None):
        """Scheduling point before a visible operation of the running task.

        ``cond`` (optional) is the enabling condition of a blocking operation: while it
        is false the task is disabled (it is parked *at* the operation, so other tasks
        see it as blocked and switching to it is not offered).
        """
        if self.aborting:
            if cond is not None and not cond():
                raise SchedulerAbort()
            return
        me = self.current
        self.steps += 1
        if self.steps > self.horizon:
            self.livelock = True
            self._start_abort("horizon of %d visible operations exceeded (livelock?)" % self.horizon)
            raise SchedulerAbort()
        me_enabled = cond is None or cond()
        others = [x for x in self.tasks if x is not me and x.enabled()]
        if me_enabled:
            if others:
                idx = self.chooser.choose(("sched", me.id, label), 1 + len(others), [FREE] + [PREEMPT] * len(others))
                if idx:
                    self.preemptions += 1
                    me.blocked_on = cond
                    me.blocked_label = label
                    try:
                        self._switch(me, others[idx - 1])
                    finally:
                        me.blocked_on = None
                        me.blocked_label = None
        else:
            me.blocked_on = cond
            me.blocked_label = label
            try:
                if not others:
                    unfinished = [x for x in self.tasks if x.started and not x.finished]
                    self._start_abort("deadlock: %s" % ", ".join("%r blocked on %s" % (x, x.blocked_label) for x in unfinished))
                    raise SchedulerAbort()
                if len(others) > 1:
                    idx = self.chooser.choose(("blocked", me.id, label), len(others), [FREE] * len(others))
                else:
                    idx = 0
                self._switch(me, others[idx])
                # a task is only ever resumed while enabled, i.e. cond() holds now
            finally:
                me.blocked_on = None
                me.blocked_label = None
        self.trace.append((me.id, label))

    def block_until(self, cond, label):
        self.point(label, cond)

    def fault(self, label):
        """Environment fault choice point (default: no fault)."""
        if self.aborting:
            return False
        return bool(self.chooser.choose(("fault", label), 2, [FREE, FAULT]))


# ---------------------------------------------------------------------------
# shims with the interface of threading / queue objects


class SSemaphore:
    def __init__(self, sched, value=1):
        self.sched = sched
        self.value = value
        self.holder_log = []

    def acquire(self, blocking=True, timeout=None):
        s = self.sched
        if s.aborting:
            return True
        if not blocking:
            # try-acquire: a visible operation that never blocks
            s.point("sem.try_acquire")
            if self.value > 0:
                self.value -= 1
                return True
            return False
        s.point("sem.acquire", lambda: self.value > 0)
        self.value -= 1
        return True

    def release(self, n=1):
        s = self.sched
        if s.aborting:
            self.value += n
            return
        s.point("sem.release")
        self.value += n

    __enter__ = acquire

    def __exit__(self, *a):
        self.release()


class SQueue:
    def __init__(self, sched, maxsize=0):
        self.sched = sched
        self.items = []
        self.maxsize = maxsize or 0  # a bounded queue blocks its producers when it is full
        self.interruptible = False  # KeyboardInterrupt may be injected at get() of task 0

    def put(self, item, block=True, timeout=None):
        s = self.sched
        if not s.aborting:
            if self.maxsize > 0:
                s.point("queue.put", lambda: len(self.items) < self.maxsize)
            else:
                s.point("queue.put")
        self.items.append(item)

    def get(self, block=True, timeout=None):
        s = self.sched
        if s.aborting:
            raise SchedulerAbort()
        if self.interruptible and s.current.id == 0 and s.fault("interrupt@queue.get"):
            raise KeyboardInterrupt("injected at queue.get")
        s.point("queue.get", lambda: bool(self.items))
        return self.items.pop(0)

    def empty(self):
        return not self.items

    def qsize(self):
        return len(self.items)


class SThread:
    """threading.Thread look-alike running under the scheduler."""

    def __init__(self, sched, group=None, target=None, name=None, args=(), kwargs=None, daemon=None):
        self.sched = sched
        self._target = target
        self._args = args
        self._kwargs = kwargs or {}
        self.name = name or "worker"
        self.daemon = daemon
        self.task = None

    def start(self):
        s = self.sched
        if s.aborting:
            raise SchedulerAbort()
        s.point("thread.start")
        self.task = s.new_task(lambda: self._target(*self._args, **self._kwargs), self.name)
        self.task.started = True
        self.task.thread.start()

    def join(self, timeout=None):
        s = self.sched
        if s.aborting:
            return
        s.point("thread.join", lambda: self.task.finished)

    def is_alive(self):
        return self.task is not None and not self.task.finished


class ThreadingShim:
    """Stands in for the ``threading`` module inside testtools.testsuite."""

    def __init__(self, sched):
        self._sched = sched
        self.created_threads = []
        self.created_semaphores = []

    def Thread(self, *a, **kw):
        t = SThread(self._sched, *a, **kw)
        self.created_threads.append(t)
        return t

    def Semaphore(self, value=1):
        s = SSemaphore(self._sched, value)
        self.created_semaphores.append(s)
        return s

    def current_thread(self):
        return _real_threading.current_thread()

    def __getattr__(self, name):
        return getattr(_real_threading, name)
