"""Kernel: stateless depth-first exploration of choice-point executions.

A *driver* is a function ``run_one(chooser) -> observation`` that runs real
code to completion and asks ``chooser.choose(label, n)`` wherever user code,
the environment or a scheduler can decide something.  Index 0 is always the
"nothing unusual" answer; every other index is a deviation with a cost
(default 1).  ``explore`` enumerates every choice sequence whose total
deviation cost is <= bound.
"""

import hashlib


def _cadd(a, b):
    if isinstance(a, tuple) or isinstance(b, tuple):
        if not isinstance(a, tuple):
            a = (a,) * len(b) if a == 0 else (a,) + (0,) * (len(b) - 1)
        if not isinstance(b, tuple):
            b = (b,) * len(a) if b == 0 else (b,) + (0,) * (len(a) - 1)
        return tuple(x + y for x, y in zip(a, b))
    return a + b


def _cle(a, bound):
    if isinstance(a, tuple):
        if not isinstance(bound, tuple):
            return sum(a) <= bound
        return all(x <= y for x, y in zip(a, bound))
    if isinstance(bound, tuple):
        return a <= bound[0]
    return a <= bound


def _cnonzero(a):
    return any(a) if isinstance(a, tuple) else bool(a)


class Nondeterminism(Exception):
    """Replaying a recorded prefix met a different choice point."""


class Chooser:
    __slots__ = ("prefix", "expect", "trace", "cost")

    def __init__(self, prefix=(), expect=None):
        self.prefix = list(prefix)
        # expect: list of (label, n) the prefix positions must reproduce
        self.expect = expect
        self.trace = []  # (label, n, idx, costs)
        self.cost = 0

    def choose(self, label, n, costs=None):
        """Return an index < n.  costs[i] = deviation cost of alternative i."""
        if n <= 0:
            raise ValueError("empty menu at %r" % (label,))
        i = len(self.trace)
        if i < len(self.prefix):
            idx = self.prefix[i]
            if self.expect is not None and i < len(self.expect):
                elabel, en = self.expect[i]
                if elabel != label or en != n:
                    raise Nondeterminism(
                        "replay diverged at point %d: recorded %r/%d, now %r/%d"
                        % (i, elabel, en, label, n)
                    )
            if idx >= n:
                raise Nondeterminism(
                    "replay diverged at point %d: choice %d out of range %d (%r)"
                    % (i, idx, n, label)
                )
        else:
            idx = 0
        if costs is None:
            c = 1 if idx else 0
        else:
            c = costs[idx]
        self.cost = _cadd(self.cost, c)
        self.trace.append((label, n, idx, costs))
        return idx

    def flag(self, label):
        """Binary choice, default False."""
        return bool(self.choose(label, 2))

    @property
    def choices(self):
        return [t[2] for t in self.trace]

    def describe(self):
        return [[str(t[0]), t[2]] for t in self.trace]


def obs_hash(obj):
    return int.from_bytes(
        hashlib.blake2b(repr(obj).encode("utf8", "backslashreplace"), digest_size=8).digest(),
        "big",
    )


class Stats:
    def __init__(self):
        self.executions = 0
        self.choice_points = 0  # tree nodes visited (new points, beyond the replayed prefix)
        self.edges = 0  # alternatives scheduled
        self.max_depth = 0
        self.max_cost = 0
        self.distinct = set()  # hashes of observations
        self.distinct_nontrivial = set()  # observations of executions with >= 1 deviation
        self.capped = False

    def as_dict(self):
        return {
            "executions": self.executions,
            "choice_points": self.choice_points,
            "edges": self.edges,
            "max_depth": self.max_depth,
            "max_cost": self.max_cost,
            "capped": self.capped,
        }


def first_level_prefixes(run_one, bound, prefix=()):
    """Run the execution for ``prefix`` once and return the prefixes of its direct
    children (one per admissible deviation).  explore(prefix=p) for each returned p plus
    explore(prefix, root_only=True) together cover exactly explore(prefix)."""
    ch = Chooser(list(prefix))
    run_one(ch)
    tr = ch.trace
    out = []
    cost = 0
    for i in range(len(tr)):
        label, n, idx, costs = tr[i]
        if i >= len(prefix):
            for alt in range(1, n):
                c = costs[alt] if costs is not None else 1
                if _cle(_cadd(cost, c), bound):
                    out.append(ch.choices[:i] + [alt])
        cost = _cadd(cost, (costs[idx] if costs is not None else (1 if idx else 0)))
    return out


def explore(run_one, check, bound, prefix=(), stats=None, max_exec=None, order_seed=0, root_only=False):
    """Enumerate all executions with deviation cost <= bound below ``prefix``.

    run_one(chooser) -> observation (must be deterministic given the choices)
    check(chooser, observation) -> None  (records violations itself)
    Returns Stats.
    """
    stats = stats or Stats()
    stack = [(list(prefix), None)]
    base = len(prefix)
    while stack:
        pfx, expect = stack.pop()
        if max_exec is not None and stats.executions >= max_exec:
            stats.capped = True
            break
        ch = Chooser(pfx, expect)
        obs = run_one(ch)
        stats.executions += 1
        tr = ch.trace
        if len(tr) < len(pfx):
            raise Nondeterminism(
                "replay diverged: execution ended after %d points, prefix has %d"
                % (len(tr), len(pfx))
            )
        stats.max_depth = max(stats.max_depth, len(tr))
        stats.max_cost = max(stats.max_cost, sum(ch.cost) if isinstance(ch.cost, tuple) else ch.cost)
        h = obs_hash(obs)
        stats.distinct.add(h)
        if _cnonzero(ch.cost):
            stats.distinct_nontrivial.add(h)
        check(ch, obs)
        # schedule children: deviate at every point after the replayed prefix
        start = max(len(pfx), base)
        cost = 0
        for i in range(start):
            t = tr[i]
            cost = _cadd(cost, (t[3][t[2]] if t[3] is not None else (1 if t[2] else 0)))
        if root_only:
            break
        choices = ch.choices
        expect_all = [(t[0], t[1]) for t in tr]
        children = []
        for i in range(start, len(tr)):
            label, n, idx, costs = tr[i]
            stats.choice_points += 1
            for alt in range(1, n):
                c = costs[alt] if costs is not None else 1
                if _cle(_cadd(cost, c), bound):
                    children.append((choices[:i] + [alt], expect_all[: i + 1]))
                    stats.edges += 1
            cost = _cadd(cost, (costs[idx] if costs is not None else (1 if idx else 0)))
        if order_seed % 2:
            children.reverse()
        stack.extend(children)
    return stats


def replay(run_one, choices):
    ch = Chooser(choices)
    obs = run_one(ch)
    return ch, obs
