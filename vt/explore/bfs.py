"""Engine B: explicit-state breadth-first search over API-call histories.

A *system* object provides

    fresh()                       -> (impl, model)   fresh real objects + fresh model state
    ops(model)                    -> iterable of enabled operations (hashable, repr-able)
    apply(impl, model, op, check) -> list of (clause, message) problems; applies ``op`` to the
                                     real objects AND to the model; invariants are evaluated only
                                     when ``check`` is true (earlier steps were checked when their
                                     own transition was explored)
    canon(impl, model)            -> hashable canonical state, or None to disable merging

A state is represented by the (shortest) history reaching it; real objects are
rebuilt by replaying the history because they are not reliably copyable.
"""

import collections

from vt.explore.chooser import obs_hash


def bfs(system, max_depth, res, label="", max_states=None, sample_every=0):
    """Explore all histories of length <= max_depth (merging equal canonical states).

    Updates ``res`` (ShardResult): states, transitions, traces_validated, distinct.
    Returns dict with level sizes.
    """
    impl, model = system.fresh()
    k0 = system.canon(impl, model)
    seen = {k0} if k0 is not None else set()
    frontier = collections.deque([()])
    res.states += 1
    levels = [1]
    depth_done = 0
    nontrivial_from = getattr(system, "nontrivial_from", 1)
    while frontier:
        hist = frontier.popleft()
        if len(hist) >= max_depth:
            continue
        # enabled ops are a function of the model state reached by hist
        impl, model = system.fresh()
        for op in hist:
            system.apply(impl, model, op, False)
        enabled = list(system.ops(model))
        for op in enabled:
            impl, model = system.fresh()
            for o in hist:
                system.apply(impl, model, o, False)
            problems = system.apply(impl, model, op, True)
            res.transitions += 1
            res.traces_validated += 1
            res.evaluations += 1
            new_hist = hist + (op,)
            if problems:
                for clause, msg in problems:
                    fp = system.fingerprint(clause, new_hist, msg) if hasattr(system, "fingerprint") else "%s/%s" % (label, clause)
                    res.violation(fp, "%s after history %r" % (msg, list(new_hist)), system.replay_data(new_hist))
                if getattr(system, "stop_at_violation", True):
                    # do not extend a history whose last step already violated the property
                    continue
            k = system.canon(impl, model)
            if k is None:
                key = ("hist", new_hist)
            else:
                key = k
            if key in seen:
                continue
            seen.add(key)
            res.states += 1
            while len(levels) <= len(new_hist):
                levels.append(0)
            levels[len(new_hist)] += 1
            if len(new_hist) >= nontrivial_from:
                res.distinct.add(obs_hash((label, key)))
            if sample_every and res.states % sample_every == 0:
                res.add_sample({"config": label, "history": [repr(o) for o in new_hist]})
            if max_states is not None and res.states >= max_states:
                res.caps_hit.append("%s: max_states=%d reached at depth %d" % (label, max_states, len(new_hist)))
                return levels
            frontier.append(new_hist)
        depth_done = max(depth_done, len(hist) + 1)
    res.notes["max_depth"] = max(res.notes.get("max_depth", 0), depth_done)
    return levels
