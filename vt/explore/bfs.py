"""Engine B: explicit-state breadth-first search over API-call histories.

A *system* object provides

    fresh()                       -> (impl, model)   fresh real objects + fresh model state
    ops(model)                    -> iterable of enabled operations (hashable, repr-able)
    apply(impl, model, op, check) -> list of (clause, message) problems; applies ``op`` to the
                                     real objects AND to the model; invariants are evaluated only
                                     when ``check`` is true (earlier steps were checked when their
                                     own transition was explored)
    canon(impl, model)            -> hashable canonical state, or None to disable merging

A state is represented by the (shortest) history reaching it; real objects are
rebuilt by replaying the history because they are not reliably copyable.
"""

import collections

from vt.explore.chooser import obs_hash


def bfs(system, max_depth, res, label="", max_states=None, sample_every=0, start=()):
    """Explore all histories of length <= max_depth (merging equal canonical states).

    Updates ``res`` (ShardResult): states, transitions, traces_validated, distinct.
    Returns dict with level sizes.
    """
    impl, model = system.fresh()
    start = tuple(start)
    # a shard may start from a non-empty history: its steps are executed and checked here
    for i, op in enumerate(start):
        problems = system.apply(impl, model, op, True)
        res.transitions += 1
        res.traces_validated += 1
        res.evaluations += 1
        for clause, msg in problems:
            h = start[: i + 1]
            fp = system.fingerprint(clause, h, msg) if hasattr(system, "fingerprint") else "%s/%s" % (label, clause)
            res.violation(fp, "%s after history %r" % (msg, list(h)), system.replay_data(h))
        if problems and getattr(system, "stop_at_violation", True):
            return [0]
    k0 = system.canon(impl, model)
    seen = {k0} if k0 is not None else set()
    frontier = collections.deque([start])
    res.states += 1
    if start:
        res.distinct.add(obs_hash((label, k0 if k0 is not None else ("hist", start))))
    levels = [1]
    depth_done = 0
    nontrivial_from = getattr(system, "nontrivial_from", 1)
    while frontier:
        hist = frontier.popleft()
        if len(hist) >= max_depth:
            continue
        # enabled ops are a function of the model state reached by hist
        impl, model = system.fresh()
        for op in hist:
            system.apply(impl, model, op, False)
        enabled = list(system.ops(model))
        for op in enabled:
            impl, model = system.fresh()
            for o in hist:
                system.apply(impl, model, o, False)
            problems = system.apply(impl, model, op, True)
            res.transitions += 1
            res.traces_validated += 1
            res.evaluations += 1
            new_hist = hist + (op,)
            if problems:
                for clause, msg in problems:
                    fp = system.fingerprint(clause, new_hist, msg) if hasattr(system, "fingerprint") else "%s/%s" % (label, clause)
                    res.violation(fp, "%s after history %r" % (msg, list(new_hist)), system.replay_data(new_hist))
                if getattr(system, "stop_at_violation", True):
                    # do not extend a history whose last step already violated the property
                    continue
            k = system.canon(impl, model)
            if k is None:
                key = ("hist", new_hist)
            else:
                key = k
            if key in seen:
                continue
            seen.add(key)
            res.states += 1
            while len(levels) <= len(new_hist):
                levels.append(0)
            levels[len(new_hist)] += 1
            if len(new_hist) >= nontrivial_from:
                res.distinct.add(obs_hash((label, key)))
            if sample_every and res.states % sample_every == 0:
                res.add_sample({"config": label, "history": [repr(o) for o in new_hist]})
            if max_states is not None and res.states >= max_states:
                res.caps_hit.append("%s: max_states=%d reached at depth %d" % (label, max_states, len(new_hist)))
                return levels
            frontier.append(new_hist)
        depth_done = max(depth_done, len(hist) + 1)
    res.notes["max_depth"] = max(res.notes.get("max_depth", 0), depth_done)
    return levels


# ---------------------------------------------------------------------------
# Level-synchronous parallel BFS (shared seen-set in the master; workers expand
# chunks of the frontier).  Must be called from the main process.

import hashlib
import multiprocessing
import os

_SYS = None
_LABEL = ""


def _digest(key):
    return hashlib.blake2b(repr(key).encode("utf8", "backslashreplace"), digest_size=16).digest()


def _expand(hists):
    system = _SYS
    out_new = []
    local_seen = set()
    transitions = 0
    violations = []
    for hist in hists:
        impl, model = system.fresh()
        for op in hist:
            system.apply(impl, model, op, False)
        enabled = list(system.ops(model))
        for op in enabled:
            impl, model = system.fresh()
            for o in hist:
                system.apply(impl, model, o, False)
            problems = system.apply(impl, model, op, True)
            transitions += 1
            new_hist = hist + (op,)
            if problems:
                for clause, msg in problems:
                    fp = system.fingerprint(clause, new_hist, msg)
                    violations.append((fp, "%s after history %r" % (msg, list(new_hist)), system.replay_data(new_hist)))
                if getattr(system, "stop_at_violation", True):
                    continue
            k = system.canon(impl, model)
            d = _digest((_LABEL, k if k is not None else ("hist", new_hist)))
            if d in local_seen:
                continue
            local_seen.add(d)
            out_new.append((d, new_hist))
    return transitions, violations, out_new


def pbfs(system, max_depth, res, label="", jobs=None, sample_every=0, max_states=None):
    """Parallel BFS; same contract as bfs().  Call from the main process only."""
    global _SYS, _LABEL
    _SYS = system
    _LABEL = label
    jobs = jobs or int(os.environ.get("VERIF_JOBS", "0")) or min(16, os.cpu_count() or 1)
    impl, model = system.fresh()
    k0 = system.canon(impl, model)
    seen = {_digest((label, k0))}
    frontier = [()]
    res.states += 1
    ctx = multiprocessing.get_context("fork")
    pool = ctx.Pool(jobs) if jobs > 1 else None
    try:
        for depth in range(max_depth):
            if not frontier:
                break
            n = max(1, min(len(frontier), jobs * 8))
            size = (len(frontier) + n - 1) // n
            chunks = [frontier[i : i + size] for i in range(0, len(frontier), size)]
            results = pool.imap(_expand, chunks) if pool is not None else map(_expand, chunks)
            nxt = []
            for transitions, violations, new in results:
                res.transitions += transitions
                res.traces_validated += transitions
                res.evaluations += transitions
                for fp, msg, rd in violations:
                    res.violation(fp, msg, rd)
                for d, hist in new:
                    if d in seen:
                        continue
                    seen.add(d)
                    res.states += 1
                    res.distinct.add(int.from_bytes(d[:8], "big"))
                    if sample_every and res.states % sample_every == 0:
                        res.add_sample({"config": label, "history": [repr(o) for o in hist]})
                    nxt.append(hist)
            frontier = nxt
            res.notes["max_depth"] = max(res.notes.get("max_depth", 0), depth + 1)
            if max_states is not None and res.states >= max_states:
                res.caps_hit.append("%s: max_states=%d reached at depth %d" % (label, max_states, depth + 1))
                break
    finally:
        if pool is not None:
            pool.close()
            pool.join()
        _SYS = None
