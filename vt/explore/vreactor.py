"""Engine D: deterministic virtual-time Twisted reactor.

``VReactor`` is the *real* ``twisted.internet.selectreactor.SelectReactor``
(real ReactorBase main loop, delayed-call heap, crash/stop, system event
triggers, signal installation, thread-call queue) with ``seconds()`` and
``doIteration()`` overridden so that time is virtual: instead of sleeping in
select() the clock jumps to the next due call.

Three sources of timing nondeterminism are turned into chooser choice points:

* the order of delayed calls due at the same instant (decided when the later
  one is scheduled: before or after the ones already due then);
* delivery of an external interrupt (SIGINT -> reactor.sigInt -> reactor.stop)
  between two reactor iterations, at most ``max_interrupts`` per execution;
* nothing else: selectables never become ready (they only exist as junk).
"""

import signal

from twisted.internet.selectreactor import SelectReactor

TIE_EPS = 1e-7
# after jumping to the next due call the clock is moved a little further, so that every call of
# the same instant (whose relative order was fixed with TIE_EPS nudges) is due in the SAME
# reactor iteration, exactly as calls with equal times are on a real reactor
SLACK = 1e-5


class WouldBlockForever(Exception):
    """The reactor has nothing scheduled and nothing can wake it."""


class VReactor(SelectReactor):
    def __init__(self):
        self._vnow = 1000.0
        self.chooser = None
        self.interrupts_left = 0
        self.ties = True
        self.iterations = 0
        self.log = []
        self.blocked_forever = False
        SelectReactor.__init__(self)

    # -- virtual time ---------------------------------------------------------
    def seconds(self):
        return self._vnow

    def rel(self):
        """Virtual time since arm()."""
        return round(self._vnow - self._t0, 3)

    def arm(self, chooser, max_interrupts=0, ties=True):
        self.chooser = chooser
        self.interrupts_left = max_interrupts
        self.ties = ties
        self._vnow = round(self._vnow / self.GRID) * self.GRID
        self._t0 = self._vnow
        self.iterations = 0
        self.log = []
        self.blocked_forever = False

    def disarm(self):
        self.chooser = None
        self.interrupts_left = 0

    def doIteration(self, timeout):
        self.iterations += 1
        if self.iterations > 10000:
            # (the reactor's main loop logs and swallows whatever doIteration raises: end the loop)
            self.blocked_forever = "more than 10000 reactor iterations"
            self.crash()
            return
        if self.threadCallQueue:
            # the waker would make select() return at once
            return
        if self.chooser is not None and self.interrupts_left > 0 and self.running:
            if self.chooser.choose(("interrupt", self.iterations), 2):
                self.interrupts_left -= 1
                self.log.append(("SIGINT", self.rel()))
                # what the installed SIGINT handler does
                self.sigInt(signal.SIGINT, None)
                return
        if timeout is None:
            if not self.running:
                return
            # nothing scheduled, no I/O can happen: a real reactor would sleep forever.  (The main
            # loop logs and swallows whatever doIteration raises, so the loop is ended instead and
            # the harness reports the hang.)
            self.blocked_forever = "nothing scheduled and nothing that could wake the reactor: it would sleep for ever"
            self.crash()
            return
        self._vnow += timeout + (SLACK if timeout > 0 else 0.0)

    GRID = 0.5  # all virtual delays used by the harnesses are multiples of this

    def callLater(self, delay, callable, *args, **kw):
        # Logical due time: snapped to the grid, so that the SLACK added by clock jumps and the
        # TIE_EPS nudges of earlier calls never accumulate into later due times.
        due = round((self._vnow + delay) / self.GRID) * self.GRID
        if abs(due - (self._vnow + delay)) > 1e-3:
            # (not one of the harness's own delays - a library default, say: taken as it is)
            due = self._vnow + delay
        if self.chooser is not None and self.ties:
            same = [c for c in self.getDelayedCalls() if abs(c.getTime() - due) < TIE_EPS * 100 and c.active()]
            if same:
                # default: after the calls already due at that instant
                if self.chooser.choose(("tie", round(due - self._t0, 3), len(same)), 2):
                    due = due - TIE_EPS * (1 + len(same))
                else:
                    due = due + TIE_EPS * len(same)
        return SelectReactor.callLater(self, max(0.0, due - self._vnow), callable, *args, **kw)

    # -- housekeeping between executions ----------------------------------------
    def dirty(self):
        """What a previous execution left behind (should be empty)."""
        out = []
        if self.running or self._started:
            out.append("running")
        calls = self.getDelayedCalls()
        if calls:
            out.append("delayed calls %r" % (calls,))
        extra = [r for r in self.getReaders() if r is not self.waker] + list(self.getWriters())
        if extra:
            out.append("selectables %r" % (extra,))
        if self.stop != SelectReactor.stop.__get__(self):
            out.append("reactor.stop replaced by %r" % (self.stop,))
        return out

    def scrub(self):
        for c in self.getDelayedCalls():
            if c.active():
                c.cancel()
        self.removeAll()
        self.__dict__.pop("stop", None)
        del self.threadCallQueue[:]
        if self._started or self.running:
            self.crash()
        # cancelled calls linger in Twisted's heap until they are popped; they would make the
        # number of iterations of the next execution depend on this one
        del self._pendingTimedCalls[:]
        del self._newTimedCalls[:]
        self._cancellations = 0


_REACTOR = [None]


def get_reactor():
    r = _REACTOR[0]
    if r is None or r._startedBefore or r._stopped and r._startedBefore:
        r = VReactor()
        _REACTOR[0] = r
    return r


def discard_reactor():
    r = _REACTOR[0]
    _REACTOR[0] = None
    if r is not None:
        try:
            r.scrub()
            r._uninstallHandler()
        except Exception:
            pass
        try:
            r.waker.connectionLost(None)
        except Exception:
            pass
