"""Verification toolkit for testtools (see /verif/DESIGN.md)."""

import os
import time

# The checks run in a local time zone that is NOT UTC (POSIX TZ string, no tz database needed):
# code that takes local time for UTC then produces timestamps 5.5 hours off, which the checks'
# "between before and after" windows notice.  (In a UTC sandbox the two would coincide.)
os.environ["TZ"] = "VRF-05:30"
time.tzset()
