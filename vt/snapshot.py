"""Generic structural snapshot of object graphs (for canonical state hashing and
for before/after purity comparisons).  No attribute names are hard-coded."""

import datetime
import io
import types

_ATOMS = (int, float, complex, str, bytes, bool, type(None))


class Unsnapshottable(Exception):
    pass


def snapshot(obj, _seen=None, _depth=0, time_token=False):
    """Return a hashable nested tuple describing ``obj``.

    Object identities are replaced by first-visit indices, sets/dicts sorted,
    Content -> (type, bytes), callables -> qualified name.
    """
    if _seen is None:
        _seen = {}
    if isinstance(obj, _ATOMS):
        return (type(obj).__name__, obj)
    if _depth > 60:
        raise Unsnapshottable("too deep")
    oid = id(obj)
    if oid in _seen:
        return ("ref", _seen[oid])
    rec = lambda o: snapshot(o, _seen, _depth + 1, time_token)
    if isinstance(obj, (datetime.datetime, datetime.timedelta, datetime.date)):
        return ("time", "T" if time_token else repr(obj))
    _seen[oid] = len(_seen)
    if isinstance(obj, (list, tuple)):
        return (type(obj).__name__,) + tuple(rec(o) for o in obj)
    if isinstance(obj, (set, frozenset)):
        return (type(obj).__name__,) + tuple(sorted((rec(o) for o in obj), key=repr))
    if isinstance(obj, dict):
        items = [(rec(k), rec(v)) for k, v in obj.items()]
        try:
            items.sort(key=lambda kv: repr(kv[0]))
        except Exception:
            pass
        return ("dict",) + tuple(items)
    if isinstance(obj, io.StringIO):
        return ("StringIO", obj.getvalue())
    if isinstance(obj, io.BytesIO):
        return ("BytesIO", obj.getvalue())
    if isinstance(obj, BaseException):
        return ("exc", type(obj).__name__, tuple(rec(a) for a in obj.args))
    if isinstance(obj, types.TracebackType):
        return ("tb",)
    if isinstance(obj, type):
        return ("class", obj.__module__, obj.__qualname__)
    if isinstance(obj, types.MethodType):
        return ("method", obj.__func__.__qualname__, rec(obj.__self__))
    if isinstance(obj, (types.FunctionType, types.BuiltinFunctionType)):
        cl = ()
        if getattr(obj, "__closure__", None):
            cells = []
            for c in obj.__closure__:
                try:
                    cells.append(rec(c.cell_contents))
                except ValueError:
                    cells.append(("empty",))
            cl = tuple(cells)
        return ("func", getattr(obj, "__qualname__", repr(obj)), cl)
    # testtools Content: type + bytes
    it = getattr(obj, "iter_bytes", None)
    ct = getattr(obj, "content_type", None)
    if it is not None and ct is not None and callable(it):
        try:
            return ("content", repr(ct), b"".join(it()))
        except Exception as e:  # content that cannot be read
            return ("content", repr(ct), "unreadable:%s" % type(e).__name__)
    d = getattr(obj, "__dict__", None)
    slots = []
    for klass in type(obj).__mro__:
        for s in getattr(klass, "__slots__", ()) or ():
            if isinstance(s, str) and hasattr(obj, s):
                slots.append(s)
    if d is None and not slots:
        r = repr(obj)
        if " at 0x" in r:
            return ("opaque", type(obj).__qualname__)
        return ("repr", type(obj).__qualname__, r)
    items = []
    if d:
        for k in sorted(d):
            items.append((k, rec(d[k])))
    for s in slots:
        items.append((s, rec(getattr(obj, s))))
    return ("obj", type(obj).__module__, type(obj).__qualname__) + tuple(items)
