"""Engine A: generated testtools.TestCase programs driven by a chooser.

A *program* has a static part (``Config``: which cleanups/patches/fixtures/
details are registered at which site, flags, decorator) and a dynamic part:
the behaviour of every stage, decided *when the stage is invoked* by asking
the chooser (so stages that never run create no choice points).  Decisions are
memoised per (stage, invocation index) so a second run() of the same instance
replays the same program.

Sites / stages:  setUp.pre, setUp (after the up-call), test, tearDown,
c:<id> (a cleanup), fx:<id>.setUp, fx:<id>.clean (fixture internals).
"""

import sys
import unittest

import testtools
from testtools import content as ttcontent
from testtools.matchers import Equals
from testtools.runtest import MultipleExceptions

RET, FAIL, ERROR, SKIP, XFAIL, UXSUCCESS, MULTI, KBI, SYSEXIT = (
    "ret",
    "fail",
    "error",
    "skip",
    "xfail",
    "uxsuccess",
    "multi",
    "kbi",
    "sysexit",
)
ALL_KINDS = (RET, FAIL, ERROR, SKIP, XFAIL, UXSUCCESS, MULTI, KBI, SYSEXIT)
# the stage returns normally, with a value (a test written "return total", a generator test ...)
RETVAL = "retval"
BASE_KINDS = (KBI, SYSEXIT)
NON_EXCEPTION_KINDS = ()  # further kinds (of a check's own) that do not derive from Exception: unittest's decorators let them pass
# what each kind contributes to the list of raised exceptions (MULTI flattened)
FLATTEN = {
    FAIL: (FAIL,),
    ERROR: (ERROR,),
    SKIP: (SKIP,),
    XFAIL: (XFAIL,),
    UXSUCCESS: (UXSUCCESS,),
    MULTI: (ERROR, FAIL),
    KBI: (KBI,),
    SYSEXIT: (SYSEXIT,),
}


class CustomSkip(Exception):
    """A skipException that does not derive from unittest.SkipTest."""


class VerifError(ValueError):
    """The 'error' kind."""


class Config:
    """Static part of a program."""

    def __init__(
        self,
        actions=None,
        kinds=ALL_KINDS,
        setup_pre_kinds=(ERROR, KBI),
        expect_mismatch=False,
        force_failure=False,
        decorator=None,
        stage_kinds=None,
        teardown_pre_kinds=(),
    ):
        # actions: dict site -> list of action tuples, e.g. ("cleanup", "1")
        self.actions = actions or {}
        self.kinds = tuple(kinds)
        self.setup_pre_kinds = tuple(setup_pre_kinds)
        self.expect_mismatch = expect_mismatch
        self.force_failure = force_failure
        self.decorator = decorator
        self.stage_kinds = stage_kinds or {}
        # behaviours of a tearDown written "clean up first, up-call last": raised BEFORE super().tearDown()
        self.teardown_pre_kinds = tuple(teardown_pre_kinds)

    def menu(self, stage):
        if stage in self.stage_kinds:
            return self.stage_kinds[stage]
        base = stage.split("#")[0]
        if base in self.stage_kinds:
            return self.stage_kinds[base]
        if stage == "setUp":
            return tuple(self.kinds) + tuple(("pre", k) for k in self.setup_pre_kinds)
        if stage == "tearDown" and self.teardown_pre_kinds:
            return tuple(self.kinds) + tuple(("pre", k) for k in self.teardown_pre_kinds)
        return self.kinds

    def key(self):
        return (
            tuple(sorted((k, tuple(v)) for k, v in self.actions.items())),
            self.kinds,
            self.setup_pre_kinds,
            self.expect_mismatch,
            self.force_failure,
            self.decorator,
            tuple(sorted(self.stage_kinds.items())),
            self.teardown_pre_kinds,
        )

    def describe(self):
        d = {}
        if self.actions:
            d["actions"] = {k: [list(a) for a in v] for k, v in self.actions.items()}
        if self.expect_mismatch:
            d["expectThat_mismatch_in_body" if self.expect_mismatch is True else "expectThat_mismatch_in_cleanup_1"] = True
        if self.force_failure:
            d["force_failure_preset"] = True
        if self.decorator:
            d["decorator"] = self.decorator
        return d


class Scratch:
    """Object patched by programs; logs every attribute write/delete."""

    def __init__(self, xlog):
        object.__setattr__(self, "_xlog", xlog)
        object.__setattr__(self, "existing", "orig")
        object.__setattr__(self, "nothing", None)  # an existing attribute whose value is None

    def __setattr__(self, name, value):
        self._xlog.append(("set", name, value))
        object.__setattr__(self, name, value)

    def __delattr__(self, name):
        self._xlog.append(("del", name))
        object.__delattr__(self, name)


class Ctx:
    """Per-execution harness state."""

    def __init__(self, config, chooser):
        self.config = config
        self.chooser = chooser
        self.memo = {}
        self.new_run()
        self.default_result = None
        self.extra = {}
        self.sched = None  # set by harnesses that run several cases under the thread scheduler

    def new_run(self):
        self.counts = {}
        self.xlog = []
        self.raised = []  # (stage, kind, marker) in raise order, MULTI kept whole
        self.scratch = Scratch(self.xlog)
        self.exc_markers = []

    def decide(self, stage, menu=None):
        n = self.counts.get(stage, 0)
        self.counts[stage] = n + 1
        key = (stage, n)
        if key in self.memo:
            return self.memo[key]
        menu = menu or self.config.menu(stage)
        k = menu[self.chooser.choose(("beh", stage, n), len(menu))]
        self.memo[key] = k
        return k


def stage_point(ctx, stage):
    """Under the thread scheduler every stage body is a scheduling point."""
    if ctx.sched is not None:
        ctx.sched.point("stage." + stage)


class EqualsAnything:
    """A returned value that compares equal to whatever it is compared with (unittest.mock.ANY is
    one; an array compares element-wise and has no truth value at all)."""

    def __init__(self, stage):
        self.stage = stage

    def __eq__(self, other):
        return True

    def __ne__(self, other):
        return False

    __hash__ = None


def perform(case, ctx, stage, kind):
    """Make the running stage behave as ``kind`` (raises unless RET)."""
    if kind == RET:
        return
    if kind == RETVAL:
        return EqualsAnything(stage)
    marker = "%s!%s" % (stage, kind)
    ctx.raised.append((stage, kind, marker))
    ctx.xlog.append(("raise", stage, kind))
    if kind == FAIL:
        case.fail(marker)
    elif kind == ERROR:
        raise VerifError(marker)
    elif kind == SKIP:
        case.skipTest(marker)
    elif kind == XFAIL:
        case.expectFailure(marker, case.assertEqual, 1, 0, marker)
    elif kind == UXSUCCESS:
        case.expectFailure(marker, lambda: None)
    elif kind == MULTI:
        infos = []
        try:
            raise VerifError(marker + "/e")
        except VerifError:
            infos.append(sys.exc_info())
        try:
            case.fail(marker + "/f")
        except case.failureException:
            infos.append(sys.exc_info())
        raise MultipleExceptions(*infos)
    elif kind == KBI:
        raise KeyboardInterrupt(marker)
    elif kind == SYSEXIT:
        raise SystemExit(marker)
    else:
        raise AssertionError("unknown kind %r" % (kind,))


def run_actions(case, ctx, site):
    for action in ctx.config.actions.get(site, ()):
        do_action(case, ctx, site, action)


def do_action(case, ctx, site, action):
    op = action[0]
    if op == "cleanup":
        cid = action[1]
        ctx.xlog.append(("register", "c:" + cid, site))
        case.addCleanup(_cleanup, case, ctx, cid)
    elif op == "cleanup_kw":
        cid = action[1]
        ctx.xlog.append(("register", "c:" + cid, site))
        # keyword arguments are passed through to the cleanup, whatever they are called
        case.addCleanup(_cleanup_kw, case, ctx, cid, fn=1, result=3, function=2, f=4)
    elif op == "patch":
        # ("patch", attr, value): attr "existing" exists, anything else is missing
        ctx.xlog.append(("patch", action[1], action[2], site))
        case.patch(ctx.scratch, action[1], action[2])
    else:
        handler = ACTION_HANDLERS.get(op)
        if handler is None:
            raise AssertionError("unknown action %r" % (action,))
        handler(case, ctx, site, action)


ACTION_HANDLERS = {}


def _cleanup(case, ctx, cid):
    stage = "c:" + cid
    stage_point(ctx, stage)
    ctx.xlog.append(("run", stage))
    run_actions(case, ctx, stage)
    if ctx.config.expect_mismatch == "cleanup" and cid == "1":
        # the expectation fails only now, while the cleanups run
        case.expectThat(1, Equals(2), "expect!cleanup")
    return perform(case, ctx, stage, ctx.decide(stage))


def _cleanup_kw(case, ctx, cid, fn=None, result=None, function=None, f=None):
    if (fn, result, function, f) != (1, 3, 2, 4):
        ctx.xlog.append(("bad-kwargs", cid, (fn, result, function, f)))
    return _cleanup(case, ctx, cid)


_CLASS_CACHE = {}


def make_class(config):
    """Build the TestCase subclass for a config (cached per process)."""
    key = config.key()
    cls = _CLASS_CACHE.get(key)
    if cls is not None:
        return cls

    class Prog(testtools.TestCase):
        _vt_ctx = None

        def setUp(self):
            ctx = self._vt_ctx
            stage_point(ctx, "setUp")
            ctx.xlog.append(("run", "setUp"))
            run_actions(self, ctx, "setUp.pre")
            k = ctx.decide("setUp")
            if isinstance(k, tuple):
                perform(self, ctx, "setUp.pre", k[1])
            super().setUp()
            run_actions(self, ctx, "setUp")
            return perform(self, ctx, "setUp", k)

        def test_it(self):
            ctx = self._vt_ctx
            stage_point(ctx, "test")
            ctx.xlog.append(("run", "test"))
            run_actions(self, ctx, "test")
            if ctx.config.expect_mismatch is True:
                self.expectThat(1, Equals(2), "expect!body")
                # a later expectation that holds does not take the earlier failure back
                self.expectThat(1, Equals(1), "expect!body-matching")
            return perform(self, ctx, "test", ctx.decide("test"))

        def tearDown(self):
            ctx = self._vt_ctx
            stage_point(ctx, "tearDown")
            ctx.xlog.append(("run", "tearDown"))
            run_actions(self, ctx, "tearDown")
            k = ctx.decide("tearDown")
            if isinstance(k, tuple):
                perform(self, ctx, "tearDown", k[1])
            super().tearDown()
            return perform(self, ctx, "tearDown", k)

        def defaultTestResult(self):
            return self._vt_ctx.default_result

        def id(self):
            return "prog.test_it"

    dec = config.decorator
    if dec == "skip_method":
        Prog.test_it = testtools.skip("dec!skip")(Prog.test_it)
    elif dec == "skipIf_method":
        Prog.test_it = testtools.skipIf(True, "dec!skip")(Prog.test_it)
    elif dec == "skipUnless_method":
        Prog.test_it = testtools.skipUnless(False, "dec!skip")(Prog.test_it)
    elif dec == "skipIf_false":
        Prog.test_it = testtools.skipIf(False, "dec!skip")(Prog.test_it)
    elif dec == "skip_class":
        Prog = unittest.skip("dec!skip")(Prog)
    elif dec == "skip_empty_reason":
        Prog.test_it = testtools.skip("")(Prog.test_it)
    elif dec == "skipIf_empty_reason":
        Prog.test_it = testtools.skipIf(True, "")(Prog.test_it)
    elif dec == "skip_nonstr_reason":
        Prog.test_it = testtools.skip(42)(Prog.test_it)  # (skipTest documents: anything str() accepts)
    elif dec == "skip_none_reason":
        Prog.test_it = testtools.skip(None)(Prog.test_it)  # (as skipTest(None): the reason is 'None')
    elif dec == "skip_surrogate_reason":
        Prog.test_it = testtools.skip("no such file: name-\udcff")(Prog.test_it)  # os.fsdecode of an undecodable name
    elif dec == "unittest_skip_bare":
        Prog.test_it = unittest.skip(Prog.test_it)  # used without arguments: the reason is ''
    elif dec == "custom_skipexception":
        Prog.skipException = CustomSkip  # a project-specific skip class, unrelated to unittest.SkipTest
    elif dec == "xfail_decorator":
        Prog.test_it = unittest.expectedFailure(Prog.test_it)
    elif dec == "run_test_with_default":
        # names the default runner explicitly: must behave exactly like no decorator at all
        from testtools import RunTest, run_test_with

        Prog.test_it = run_test_with(RunTest)(Prog.test_it)
    elif dec is not None:
        raise AssertionError(dec)
    Prog.__name__ = "Prog"
    _CLASS_CACHE[key] = Prog
    return Prog


def new_case(config, ctx):
    cls = make_class(config)
    case = cls("test_it")
    case._vt_ctx = ctx
    if config.force_failure:
        case.force_failure = True
    return case


# ---------------------------------------------------------------------------
# Reference model of the lifecycle (never imports testtools)


class ModelAbort(Exception):
    """An action (e.g. useFixture of a fixture whose setUp fails) aborts the running stage."""

    def __init__(self, kind):
        Exception.__init__(self, kind)
        self.kind = kind


class ModelRun:
    """What the documented lifecycle does for a config + decisions."""

    def __init__(self, config, memo):
        self.config = config
        self.memo = memo
        self.counts = {}
        self.stages = []  # expected ("run", stage) order, incl. patch restores
        self.raised = []  # (stage, kind) flattened? no: whole kinds
        self.missing = []  # stages the model runs but that have no decision
        self.stack = []
        self.skipped_by_decorator = config.decorator in (
            "skip_empty_reason",
            "skipIf_empty_reason",
            "unittest_skip_bare",
            "skip_nonstr_reason",
            "skip_none_reason",
            "skip_surrogate_reason",
            "skip_method",
            "skipIf_method",
            "skipUnless_method",
            "skip_class",
        )
        self.scratch = {"existing": "orig", "nothing": None}
        self.simulate()

    def decide(self, stage):
        n = self.counts.get(stage, 0)
        self.counts[stage] = n + 1
        if (stage, n) not in self.memo:
            self.missing.append((stage, n))
            return RET
        return self.memo[(stage, n)]

    def actions(self, site):
        for a in self.config.actions.get(site, ()):
            if a[0] in ("cleanup", "cleanup_kw"):
                self.stack.append(("c", a[1]))
            elif a[0] == "patch":
                attr, value = a[1], a[2]
                old = self.scratch.get(attr, _MISSING)
                self.stages.append(("set", attr, value))
                self.scratch[attr] = value
                self.stack.append(("restore", attr, old))
            else:
                h = MODEL_ACTION_HANDLERS.get(a[0])
                if h:
                    h(self, site, a)

    def stage(self, stage, pre_site=None):
        self.stages.append(("run", stage))
        try:
            if pre_site:
                self.actions(pre_site)
        except ModelAbort as a:
            self.raised.append((pre_site, a.kind))
            return False
        if pre_site:
            # setUp decides before the up-call, the other stages after their actions
            k = self.decide(stage)
            if isinstance(k, tuple):
                self.raised.append((pre_site, k[1]))
                return False
        try:
            self.actions(stage)
        except ModelAbort as a:
            self.raised.append((stage, a.kind))
            return False
        if not pre_site:
            k = self.decide(stage)
            if isinstance(k, tuple):
                k = k[1]  # raised before the up-call: same consequences as after it
        if k not in (RET, RETVAL):
            self.raised.append((stage, k))
            return False
        return True

    def simulate(self):
        if self.skipped_by_decorator:
            return
        if self.stage("setUp", pre_site="setUp.pre"):
            self.stage("test")
            self.stage("tearDown")
        while self.stack:
            item = self.stack.pop()
            if item[0] == "c":
                self.stage("c:" + item[1])
            elif item[0] == "restore":
                _, attr, old = item
                if old is _MISSING:
                    self.stages.append(("del", attr))
                    self.scratch.pop(attr, None)
                else:
                    self.stages.append(("set", attr, old))
                    self.scratch[attr] = old
            else:
                h = MODEL_STACK_HANDLERS[item[0]]
                h(self, item)

    def flat_raised(self):
        out = []
        for stage, k in self.raised:
            for f in FLATTEN[k]:
                out.append((stage, f))
        return out


_MISSING = ("<missing>",)
MODEL_ACTION_HANDLERS = {}
MODEL_STACK_HANDLERS = {}


def impl_stage_log(xlog):
    """Projection of the execution log comparable with ModelRun.stages."""
    return [e for e in xlog if e[0] in ("run", "set", "del")]
