"""Harness-owned recording results (independent of testtools.testresult.doubles).

Every recorder appends tuples to ``self.log``; the first element is the method
name.  Tests are logged by object (the harness maps them to ids).
"""

import testtools


class Py26(object):
    """2.6-style: no skip/xfail/uxsuccess, no startTestRun, positional err."""

    flavour = "py26"

    def __init__(self, log=None):
        self.log = [] if log is None else log
        self.shouldStop = False
        self.testsRun = 0
        self._ok = True

    def startTest(self, test):
        self.testsRun += 1
        self.log.append(("startTest", test))

    def stopTest(self, test):
        self.log.append(("stopTest", test))

    def addSuccess(self, test):
        self.log.append(("addSuccess", test))

    def addError(self, test, err):
        self._ok = False
        self.log.append(("addError", test, err))

    def addFailure(self, test, err):
        self._ok = False
        self.log.append(("addFailure", test, err))

    def stop(self):
        self.shouldStop = True

    def wasSuccessful(self):
        return self._ok


class Py27(Py26):
    flavour = "py27"

    def __init__(self, log=None):
        Py26.__init__(self, log)
        self.failfast = False

    def addError(self, test, err):
        Py26.addError(self, test, err)
        if self.failfast:
            self.stop()

    def addFailure(self, test, err):
        Py26.addFailure(self, test, err)
        if self.failfast:
            self.stop()

    def addSkip(self, test, reason):
        self.log.append(("addSkip", test, reason))

    def addExpectedFailure(self, test, err):
        self.log.append(("addExpectedFailure", test, err))

    def addUnexpectedSuccess(self, test):
        self.log.append(("addUnexpectedSuccess", test))
        if self.failfast:
            self.stop()

    def startTestRun(self):
        self.log.append(("startTestRun",))

    def stopTestRun(self):
        self.log.append(("stopTestRun",))


class Ext(Py27):
    """Extended protocol: details=, tags, time, progress."""

    flavour = "ext"

    def __init__(self, log=None, read_details=False):
        Py27.__init__(self, log)
        self._tagstack = [set()]
        self.read_details = read_details

    def _d(self, details):
        if details is not None and self.read_details:
            # read every detail's bytes inside the outcome call
            return {k: (repr(v.content_type), b"".join(v.iter_bytes())) for k, v in details.items()}
        # (the dict is the reporter's: it may refill it for its next outcome)
        return dict(details) if isinstance(details, dict) else details

    def addError(self, test, err=None, details=None):
        self._ok = False
        self.log.append(("addError", test, err, self._d(details)))
        if self.failfast:
            self.stop()

    def addFailure(self, test, err=None, details=None):
        self._ok = False
        self.log.append(("addFailure", test, err, self._d(details)))
        if self.failfast:
            self.stop()

    def addExpectedFailure(self, test, err=None, details=None):
        self.log.append(("addExpectedFailure", test, err, self._d(details)))

    def addSkip(self, test, reason=None, details=None):
        self.log.append(("addSkip", test, reason, self._d(details)))

    def addSuccess(self, test, details=None):
        self.log.append(("addSuccess", test, None, self._d(details)))

    def addUnexpectedSuccess(self, test, details=None):
        self._ok = False
        self.log.append(("addUnexpectedSuccess", test, None, self._d(details)))
        if self.failfast:
            self.stop()

    def progress(self, offset, whence):
        self.log.append(("progress", offset, whence))

    def startTestRun(self):
        Py27.startTestRun(self)
        self._ok = True
        self._tagstack = [set()]

    def startTest(self, test):
        Py27.startTest(self, test)
        self._tagstack.append(set(self._tagstack[-1]))

    def stopTest(self, test):
        if len(self._tagstack) > 1:
            self._tagstack.pop()
        Py27.stopTest(self, test)

    @property
    def current_tags(self):
        return set(self._tagstack[-1])

    def tags(self, new_tags, gone_tags):
        self._tagstack[-1].update(new_tags)
        self._tagstack[-1].difference_update(gone_tags)
        self.log.append(("tags", frozenset(new_tags), frozenset(gone_tags)))

    def time(self, t):
        self.log.append(("time", t))

    def done(self):
        self.log.append(("done",))


class Twisted(object):
    """trial IReporter-like."""

    flavour = "twisted"

    def __init__(self, log=None):
        self.log = [] if log is None else log
        self._ok = True
        self.testsRun = 0

    def startTest(self, test):
        self.testsRun += 1
        self.log.append(("startTest", test))

    def stopTest(self, test):
        self.log.append(("stopTest", test))

    def addSuccess(self, test):
        self.log.append(("addSuccess", test))

    def addError(self, test, error):
        self._ok = False
        self.log.append(("addError", test, error))

    def addFailure(self, test, error):
        self._ok = False
        self.log.append(("addFailure", test, error))

    def addExpectedFailure(self, test, failure, todo=None):
        self.log.append(("addExpectedFailure", test, failure))

    def addUnexpectedSuccess(self, test, todo=None):
        self.log.append(("addUnexpectedSuccess", test))

    def addSkip(self, test, reason):
        self.log.append(("addSkip", test, reason))

    def wasSuccessful(self):
        return self._ok

    def done(self):
        self.log.append(("done",))


class TT(testtools.TestResult):
    """testtools.TestResult that also logs."""

    flavour = "tt"

    def __init__(self, log=None, **kw):
        self.log = [] if log is None else log
        testtools.TestResult.__init__(self, **kw)

    def startTest(self, test):
        self.log.append(("startTest", test))
        testtools.TestResult.startTest(self, test)

    def stopTest(self, test):
        testtools.TestResult.stopTest(self, test)
        self.log.append(("stopTest", test))

    def startTestRun(self):
        if hasattr(self, "log"):
            self.log.append(("startTestRun",))
        testtools.TestResult.startTestRun(self)

    def stopTestRun(self):
        testtools.TestResult.stopTestRun(self)
        self.log.append(("stopTestRun",))

    def tags(self, new_tags, gone_tags):
        self.log.append(("tags", frozenset(new_tags), frozenset(gone_tags)))
        testtools.TestResult.tags(self, new_tags, gone_tags)

    def time(self, a_datetime):
        self.log.append(("time", a_datetime))
        testtools.TestResult.time(self, a_datetime)


def _mk(name):
    def method(self, test, *args, **kwargs):
        d = kwargs.get("details")
        self.log.append((name, test, args[0] if args else None, dict(d) if isinstance(d, dict) else d))
        return getattr(testtools.TestResult, name)(self, test, *args, **kwargs)

    method.__name__ = name
    return method


for _n in ("addSuccess", "addError", "addFailure", "addSkip", "addExpectedFailure", "addUnexpectedSuccess"):
    setattr(TT, _n, _mk(_n))


class Stream(object):
    """Recording StreamResult (keyword or positional)."""

    flavour = "stream"
    FIELDS = (
        "test_id",
        "test_status",
        "test_tags",
        "runnable",
        "file_name",
        "file_bytes",
        "eof",
        "mime_type",
        "route_code",
        "timestamp",
    )

    def __init__(self, log=None):
        self.log = [] if log is None else log

    def startTestRun(self):
        self.log.append(("startTestRun",))

    def stopTestRun(self):
        self.log.append(("stopTestRun",))

    def status(
        self,
        test_id=None,
        test_status=None,
        test_tags=None,
        runnable=True,
        file_name=None,
        file_bytes=None,
        eof=False,
        mime_type=None,
        route_code=None,
        timestamp=None,
    ):
        self.log.append(
            (
                "status",
                {
                    "test_id": test_id,
                    "test_status": test_status,
                    "test_tags": test_tags,
                    "runnable": runnable,
                    "file_name": file_name,
                    "file_bytes": file_bytes,
                    "eof": eof,
                    "mime_type": mime_type,
                    "route_code": route_code,
                    "timestamp": timestamp,
                },
            )
        )


OUTCOMES = ("addSuccess", "addError", "addFailure", "addSkip", "addExpectedFailure", "addUnexpectedSuccess")
