"""Typed matcher-expression enumeration with a denotational reference semantics.

An ``Expr`` knows how to build a *fresh* real matcher (``make()``) and what the
documented predicate says about a value of its domain (``sem(v)`` -> bool).  It never
looks at the implementation.  Expressions are enumerated breadth-first by depth over
typed domains; ill-typed combinations are never generated.
"""

import collections
import itertools
import os
import re
import tarfile
import types
import warnings

from testtools import matchers as M
from testtools.matchers import DocTestMatches

INT, STR, BYTES, LIST, DICT, OBJ, EXC, CALL, PATH, STRLIST, WARNLIST, LISTLIST, DICTLIST = (
    "int", "str", "bytes", "list", "dict", "obj", "exc", "call", "path", "strlist", "warnlist", "listlist", "dictlist",
)


class Abort(BaseException):
    """An application-defined BaseException that is not an Exception."""


def _raise_abort():
    raise Abort("stop everything")


class Obj:
    def __init__(self, **kw):
        self.__dict__.update(kw)

    def __repr__(self):
        return "Obj(%s)" % ", ".join("%s=%r" % kv for kv in sorted(self.__dict__.items()))

    def __eq__(self, other):
        return isinstance(other, Obj) and self.__dict__ == other.__dict__

    __hash__ = None


def _exc_info(e):
    try:
        raise e
    except BaseException:
        import sys

        return sys.exc_info()


class _SubValueError(ValueError):
    """A subclass of the expected type: MatchesException(ValueError('a')) matches it when the args are equal."""


def _ret1():
    return 1


def _raise_value():
    raise ValueError("a")


def _raise_key():
    raise KeyError("b")


def _raise_kbi():
    raise KeyboardInterrupt("k")


def _warn_dep():
    warnings.warn("x is deprecated", DeprecationWarning, 2)
    return 1


def _warn_two():
    warnings.warn("x is deprecated", DeprecationWarning, 2)
    warnings.warn("other", UserWarning, 2)


def _warn_twice_same_line():
    # a deprecated helper used in a loop: the same warning, from the same line, twice
    for _ in range(2):
        warnings.warn("x is deprecated", DeprecationWarning, 2)


class Scratch:
    """Scratch directory tree for the path matchers."""

    def __init__(self, root):
        self.root = root
        os.makedirs(os.path.join(root, "dir"))
        for n in ("a", "b"):
            with open(os.path.join(root, "dir", n), "w") as f:
                f.write(n)
        self.file = os.path.join(root, "file")
        with open(self.file, "w") as f:
            f.write("x")
        os.chmod(self.file, 0o644)
        # the same permission bits plus the sticky bit: '1644', which is not '0644'
        self.sticky = os.path.join(root, "sticky")
        with open(self.sticky, "w") as f:
            f.write("x")
        os.chmod(self.sticky, 0o1644)
        self.dir = os.path.join(root, "dir")
        self.emptydir = os.path.join(root, "empty")
        os.makedirs(self.emptydir)
        self.missing = os.path.join(root, "missing")
        self.tar = os.path.join(root, "t.tar")
        with tarfile.open(self.tar, "w") as t:
            t.add(os.path.join(root, "dir", "a"), arcname="a")
            t.add(os.path.join(root, "dir", "b"), arcname="b")
        self.link = os.path.join(root, "link")
        os.symlink(self.file, self.link)
        # ".." after a symlink to a directory elsewhere: <root>/dir/up/../a is <root>/empty/../a for
        # the operating system, i.e. <root>/a (which does not exist) - not <root>/dir/a
        os.makedirs(os.path.join(root, "deep", "sub"))
        os.symlink(os.path.join(root, "deep", "sub"), os.path.join(root, "dir", "up"))
        with open(os.path.join(root, "deep", "a"), "w") as f:
            f.write("deep a")
        self.dotdot = os.path.join(root, "dir", "up", "..", "a")
        self.deep_a = os.path.join(root, "deep", "a")

    def cleanup(self):
        import shutil

        shutil.rmtree(self.root, ignore_errors=True)


def domains(scratch=None):
    d = {
        INT: [0, 1, 2],
        STR: ["", "a", "ab", "é\n"],
        BYTES: [b"", b"a\xff", b"a"],
        LIST: [[], [1], [1, 2], [2, 1], [1, 1], (1, 2), (1, 2, 2), [2, 1, 1],
               # equal elements that are different things (1 == 1.0): each one is still an element
               [1, 1.0]],
        DICT: [{}, {"x": 1}, {"x": 1, "y": 2}, {"y": 1}, {"x": 2}, {"x": 1, "y": 0}, {"z": None}, {"x": 0}, {1: 0, "y": 0, "x": 1},
               # dict subclasses that answer for missing keys (__missing__)
               collections.Counter({"x": 1}), collections.defaultdict(int, {"x": 2}),
               # keys of ONE type that still do not order among themselves
               {(1, "a"): 0, (1, 2): 0, "x": 1},
               # keys that sort, but only partially (frozensets order by inclusion)
               {frozenset({1}): 0, frozenset({2}): 0}],
        OBJ: [Obj(a=1, b=2), Obj(a=1, b=1), Obj(a=0, b=2)],
        EXC: [_exc_info(ValueError("a")), _exc_info(KeyError("b")), _exc_info(KeyboardInterrupt()), _exc_info(_SubValueError("a"))],
        CALL: [_ret1, _raise_value, _raise_key, _warn_dep, _warn_two, _warn_twice_same_line, _raise_kbi, _raise_abort],
        LISTLIST: [[], [[]], [[1]], [[1], []], [[1, 2], [1]], [[2]]],
        DICTLIST: [{}, {"x": []}, {"x": [1]}, {"x": [2], "y": []}],
        STRLIST: [[], ["a", "b"], ["a"]],
    }
    if scratch is not None:
        d[PATH] = [scratch.missing, scratch.file, scratch.dir, scratch.emptydir, scratch.tar, scratch.link, scratch.dotdot, scratch.sticky]
    return d


class Expr:
    __slots__ = ("name", "make", "sem", "type", "depth", "linear", "size", "dom")

    def __init__(self, name, make, sem, typ, depth=0, linear=True, size=1, dom=None):
        self.dom = dom  # optional predicate: is the value inside the matcher's documented domain?
        self.name = name
        self.make = make
        self.sem = sem
        self.type = typ
        self.depth = depth
        self.linear = linear
        self.size = size

    def __repr__(self):
        return self.name


def _isinst(exc_info, types):
    return issubclass(exc_info[0], types)


def is_even(x):
    return x % 2 == 0


def is_pair(x):
    return len(x) == 2


def get_a(o):
    return o.a


def leaves(scratch=None):
    """Leaf matchers with their documented predicate, per domain type."""
    L = []

    def add(typ, name, make, sem):
        L.append(Expr(name, make, sem, typ))

    for typ in (INT, STR, BYTES, LIST, DICT):
        add(typ, "Always()", M.Always, lambda v: True)
        add(typ, "Never()", M.Never, lambda v: False)
    # ints
    for k in (1,):
        add(INT, "Equals(%d)" % k, lambda k=k: M.Equals(k), lambda v, k=k: v == k)
        add(INT, "NotEquals(%d)" % k, lambda k=k: M.NotEquals(k), lambda v, k=k: v != k)
        add(INT, "LessThan(%d)" % k, lambda k=k: M.LessThan(k), lambda v, k=k: v < k)
        add(INT, "GreaterThan(%d)" % k, lambda k=k: M.GreaterThan(k), lambda v, k=k: v > k)
    add(INT, "Equals(2)", lambda: M.Equals(2), lambda v: v == 2)
    add(INT, "LessThan(2)", lambda: M.LessThan(2), lambda v: v < 2)
    add(INT, "IsInstance()", lambda: M.IsInstance(), lambda v: False)  # (what assertIsInstance(x, ()) builds: no type at all)
    add(INT, "IsInstance(int)", lambda: M.IsInstance(int), lambda v: isinstance(v, int))
    add(INT, "IsInstance(str, bytes)", lambda: M.IsInstance(str, bytes), lambda v: isinstance(v, (str, bytes)))
    add(INT, "IsInstance(str | bytes)", lambda: M.IsInstance(str | bytes), lambda v: isinstance(v, (str, bytes)))
    add(STR, "IsInstance(int | bytes)", lambda: M.IsInstance(int | bytes), lambda v: isinstance(v, (int, bytes)))
    add(STR, "MatchesPredicate(str.isupper, '%s')", lambda: M.MatchesPredicate(str.isupper, "%s"), lambda v: v.isupper())
    add(INT, "MatchesPredicate(is_even)", lambda: M.MatchesPredicate(is_even, "%s is not even"), lambda v: v % 2 == 0)
    add(INT, "Is(None)", lambda: M.Is(None), lambda v: v is None)
    # str
    add(STR, "Equals('a')", lambda: M.Equals("a"), lambda v: v == "a")
    add(STR, "StartsWith('a')", lambda: M.StartsWith("a"), lambda v: v.startswith("a"))
    add(STR, "EndsWith('b')", lambda: M.EndsWith("b"), lambda v: v.endswith("b"))
    add(STR, "Contains('a')", lambda: M.Contains("a"), lambda v: "a" in v)
    add(STR, "MatchesRegex('a+$')", lambda: M.MatchesRegex("a+$"), lambda v: re.match("a+$", v) is not None)
    add(STR, "MatchesRegex(re.compile('a+$'))", lambda: M.MatchesRegex(re.compile("a+$")), lambda v: re.match("a+$", v) is not None)
    add(STR, "MatchesRegex('A')", lambda: M.MatchesRegex("A"), lambda v: re.match("A", v) is not None)  # (same pattern, other flags)
    add(STR, "MatchesRegex('A', re.I)", lambda: M.MatchesRegex("A", re.I), lambda v: re.match("A", v, re.I) is not None)
    add(STR, "HasLength(1)", lambda: M.HasLength(1), lambda v: len(v) == 1)
    add(STR, "DocTestMatches('a...')", lambda: DocTestMatches("a...", 8), lambda v: v.startswith("a"))
    add(STR, "NotEquals('')", lambda: M.NotEquals(""), lambda v: v != "")
    # bytes
    add(BYTES, "Equals(b'')", lambda: M.Equals(b""), lambda v: v == b"")
    add(BYTES, "StartsWith(b'a')", lambda: M.StartsWith(b"a"), lambda v: v.startswith(b"a"))
    add(BYTES, "EndsWith(b'\\xff')", lambda: M.EndsWith(b"\xff"), lambda v: v.endswith(b"\xff"))
    add(BYTES, "Contains(b'a')", lambda: M.Contains(b"a"), lambda v: b"a" in v)
    add(BYTES, "HasLength(2)", lambda: M.HasLength(2), lambda v: len(v) == 2)
    add(BYTES, "MatchesRegex(re.compile(b'a.', re.S))", lambda: M.MatchesRegex(re.compile(b"a.", re.S)), lambda v: re.match(b"a.", v, re.S) is not None)
    add(BYTES, "MatchesRegex(b'a.')", lambda: M.MatchesRegex(b"a.", re.S), lambda v: re.match(b"a.", v, re.S) is not None)
    # lists
    add(LIST, "Equals([1, 2])", lambda: M.Equals([1, 2]), lambda v: v == [1, 2])
    add(LIST, "SameMembers([2, 1])", lambda: M.SameMembers([2, 1]), lambda v: sorted(v) == [1, 2])
    add(LIST, "SameMembers([1, 1])", lambda: M.SameMembers([1, 1]), lambda v: sorted(v) == [1, 1])
    # same length, same distinct members, different repetitions: (1, 2, 2) must not match
    add(LIST, "SameMembers([1, 1, 2])", lambda: M.SameMembers([1, 1, 2]), lambda v: sorted(v) == [1, 1, 2])
    # ("two iterators", says the docstring)
    add(LIST, "SameMembers(iter([2, 1]))", lambda: M.SameMembers(iter([2, 1])), lambda v: sorted(v) == [1, 2])
    # (a preprocessor whose result can be used once: it has to be applied afresh for every match)
    add(LIST, "AfterPreprocessing(iter, Contains(2))", lambda: M.AfterPreprocessing(iter, M.Contains(2)), lambda v: 2 in v)
    add(LIST, "Contains(1)", lambda: M.Contains(1), lambda v: 1 in v)
    add(LIST, "ContainsAll([1, 2])", lambda: M.ContainsAll([1, 2]), lambda v: 1 in v and 2 in v)
    add(LIST, "HasLength(2)", lambda: M.HasLength(2), lambda v: len(v) == 2)
    add(LIST, "MatchesAny()", lambda: M.MatchesAny(), lambda v: False)
    add(LIST, "MatchesAll()", lambda: M.MatchesAll(), lambda v: True)
    add(LIST, "MatchesPredicate(is_pair)", lambda: M.MatchesPredicate(is_pair, "%s is not a pair"), lambda v: len(v) == 2)
    # dicts
    add(DICT, "KeysEqual('x')", lambda: M.KeysEqual("x"), lambda v: set(v) == {"x"})
    add(DICT, "KeysEqual({'x':0,'y':0})", lambda: M.KeysEqual({"x": 0, "y": 0}), lambda v: set(v) == {"x", "y"})
    # (a single argument that is a mapping, though not a dict: its keys are the expected ones)
    add(DICT, "KeysEqual(mappingproxy({'x':0,'y':0}))", lambda: M.KeysEqual(types.MappingProxyType({"x": 0, "y": 0})), lambda v: set(v) == {"x", "y"})
    add(DICT, "KeysEqual('x','x')", lambda: M.KeysEqual("x", "x"), lambda v: set(v) == {"x"})
    add(DICT, "KeysEqual({fs2:0,fs1:0})", lambda: M.KeysEqual({frozenset({2}): 0, frozenset({1}): 0}), lambda v: set(v) == {frozenset({1}), frozenset({2})})
    # (expected keys of different types: they do not order, the matcher still has a str())
    add(DICT, "ContainsDict({1: Equals(0), 'x': Equals(1)})", lambda: M.ContainsDict({1: M.Equals(0), "x": M.Equals(1)}), lambda v: 1 in v and v[1] == 0 and "x" in v and v["x"] == 1)
    add(DICT, "Equals({})", lambda: M.Equals({}), lambda v: v == {})
    add(DICT, "HasLength(1)", lambda: M.HasLength(1), lambda v: len(v) == 1)
    # objects
    add(OBJ, "MatchesStructure.byEquality(a=1)", lambda: M.MatchesStructure.byEquality(a=1), lambda v: v.a == 1)
    add(OBJ, "MatchesStructure.byMatcher(LessThan, a=1, b=3)", lambda: M.MatchesStructure.byMatcher(M.LessThan, a=1, b=3), lambda v: v.a < 1 and v.b < 3)
    add(OBJ, "MatchesStructure.fromExample(Obj(a=1,b=2),'a','b')", lambda: M.MatchesStructure.fromExample(Obj(a=1, b=2), "a", "b"), lambda v: v.a == 1 and v.b == 2)
    add(OBJ, "fromExample(...).update(b=None)", lambda: M.MatchesStructure.fromExample(Obj(a=1, b=2), "a", "b").update(b=None), lambda v: v.a == 1)
    def _base_after_update(**changes):
        # the matcher update() was called ON (a project-wide base matcher that variants are derived from)
        base = M.MatchesStructure.fromExample(Obj(a=1, b=2), "a", "b")
        base.update(**changes)
        return base

    add(OBJ, "base of .update(b=Equals(1))", lambda: _base_after_update(b=M.Equals(1)), lambda v: v.a == 1 and v.b == 2)
    add(OBJ, "base of .update(b=None)", lambda: _base_after_update(b=None), lambda v: v.a == 1 and v.b == 2)
    add(OBJ, "fromExample(...).update(b=Equals(1))", lambda: M.MatchesStructure.fromExample(Obj(a=1, b=2), "a", "b").update(b=M.Equals(1)), lambda v: v.a == 1 and v.b == 1)
    add(OBJ, "Equals(Obj(a=1,b=2))", lambda: M.Equals(Obj(a=1, b=2)), lambda v: v == Obj(a=1, b=2))
    # exc_info
    add(EXC, "MatchesException(ValueError)", lambda: M.MatchesException(ValueError), lambda v: _isinst(v, ValueError))
    add(EXC, "MatchesException(ValueError('a'))", lambda: M.MatchesException(ValueError("a")), lambda v: _isinst(v, ValueError) and v[1].args == ("a",))
    add(EXC, "MatchesException(ValueError('z'))", lambda: M.MatchesException(ValueError("z")), lambda v: _isinst(v, ValueError) and v[1].args == ("z",))
    add(EXC, "MatchesException((ValueError, KeyError))", lambda: M.MatchesException((ValueError, KeyError)), lambda v: _isinst(v, (ValueError, KeyError)))
    add(EXC, "MatchesException(Exception, 'a+')", lambda: M.MatchesException(Exception, "a+"), lambda v: _isinst(v, Exception) and re.match("a+", str(v[1])) is not None)
    add(EXC, "MatchesException(BaseException)", lambda: M.MatchesException(BaseException), lambda v: True)
    add(EXC, "MatchesException(KeyboardInterrupt)", lambda: M.MatchesException(KeyboardInterrupt), lambda v: _isinst(v, KeyboardInterrupt))
    # str lists (directory listings)
    add(STRLIST, "Equals(['a','b'])", lambda: M.Equals(["a", "b"]), lambda v: v == ["a", "b"])
    add(STRLIST, "HasLength(0)", lambda: M.HasLength(0), lambda v: len(v) == 0)
    add(STRLIST, "Contains('a')", lambda: M.Contains("a"), lambda v: "a" in v)
    # paths
    if scratch is not None:
        s = scratch
        ex, isd, isf = os.path.exists, os.path.isdir, os.path.isfile
        add(PATH, "PathExists()", M.PathExists, lambda v: ex(v))
        add(PATH, "DirExists()", M.DirExists, lambda v: isd(v))
        add(PATH, "FileExists()", M.FileExists, lambda v: isf(v))
        add(PATH, "DirContains(['b','a'])", lambda: M.DirContains(["b", "a"]), lambda v: isd(v) and sorted(os.listdir(v)) == ["a", "b"])
        add(PATH, "DirContains([])", lambda: M.DirContains([]), lambda v: isd(v) and os.listdir(v) == [])
        add(PATH, "SamePath(file)", lambda: M.SamePath(s.file), lambda v: os.path.realpath(v) == os.path.realpath(s.file))
        add(PATH, "SamePath(deep/a)", lambda: M.SamePath(s.deep_a), lambda v: os.path.realpath(v) == os.path.realpath(s.deep_a))
        add(PATH, "SamePath(dir/a)", lambda: M.SamePath(os.path.join(s.dir, "a")), lambda v: os.path.realpath(v) == os.path.realpath(os.path.join(s.dir, "a")))
        add(PATH, "SamePath(missing)", lambda: M.SamePath(s.missing), lambda v: os.path.realpath(v) == os.path.realpath(s.missing))
    return L


def _exists_file(v):
    return os.path.isfile(v)


def call_outcome(f):
    """-> ('ret', value, warnings) | ('raise', exc_info, warnings)"""
    with warnings.catch_warnings(record=True) as w:
        warnings.simplefilter("always")
        try:
            return ("ret", f(), list(w))
        except BaseException:
            import sys

            return ("raise", sys.exc_info(), list(w))


PROPAGATE = "propagate"


def combinators(children, scratch=None, first_only_variants=True):
    """Yield expressions built from ``children`` (dict type -> list of Expr) one level up.

    ``children[t]['new']`` are the expressions of the previous depth, ``['all']`` all shallower ones.
    """

    def mk(name, make, sem, typ, kids):
        doms = [k.dom for k in kids if k.dom is not None and k.type == typ]
        dom = (lambda v, doms=doms: all(d(v) for d in doms)) if doms else None
        return Expr(name, make, sem, typ, depth=1 + max(k.depth for k in kids), linear=all(k.linear for k in kids) and len(kids) == 1, size=1 + sum(k.size for k in kids), dom=dom)

    for typ, group in children.items():
        new, allx = group["new"], group["all"]
        base = group.get("leaves", allx)
        for a in new:
            yield mk("Not(%s)" % a.name, lambda a=a: M.Not(a.make()), lambda v, a=a: _not(a.sem(v)), typ, [a])
            yield mk("Annotate('note', %s)" % a.name, lambda a=a: M.Annotate("note", a.make()), lambda v, a=a: a.sem(v), typ, [a])
        # binary: at least one operand from the newest level, the other a leaf (keeps growth polynomial)
        pairs = set()
        for a in new:
            for b in base:
                pairs.add((a, b))
                pairs.add((b, a))
        for a, b in sorted(pairs, key=lambda p: (p[0].name, p[1].name)):
            yield mk("MatchesAll(%s, %s)" % (a.name, b.name), lambda a=a, b=b: M.MatchesAll(a.make(), b.make()), lambda v, a=a, b=b: a.sem(v) and b.sem(v), typ, [a, b])
            yield mk("MatchesAny(%s, %s)" % (a.name, b.name), lambda a=a, b=b: M.MatchesAny(a.make(), b.make()), lambda v, a=a, b=b: a.sem(v) or b.sem(v), typ, [a, b])
            if first_only_variants and a.depth == 0 and b.depth == 0:
                yield mk("MatchesAll(%s, %s, first_only=True)" % (a.name, b.name), lambda a=a, b=b: M.MatchesAll(a.make(), b.make(), first_only=True), lambda v, a=a, b=b: a.sem(v) and b.sem(v), typ, [a, b])
    # element-wise / structural combinators into other domains
    ints = children.get(INT, {"new": [], "all": []})
    ileaves = ints.get("leaves", ints["all"])
    for a in ints["new"]:
        yield mk("AllMatch(%s)" % a.name, lambda a=a: M.AllMatch(a.make()), lambda v, a=a: all(a.sem(x) for x in v), LIST, [a])
        yield mk("AnyMatch(%s)" % a.name, lambda a=a: M.AnyMatch(a.make()), lambda v, a=a: any(a.sem(x) for x in v), LIST, [a])
        yield mk("AfterPreprocessing(len, %s)" % a.name, lambda a=a: M.AfterPreprocessing(len, a.make()), lambda v, a=a: a.sem(len(v)), LIST, [a])
        yield mk("AfterPreprocessing(len, %s, annotate=False)" % a.name, lambda a=a: M.AfterPreprocessing(len, a.make(), False), lambda v, a=a: a.sem(len(v)), STR, [a])
        yield mk("AfterPreprocessing(get_a, %s)" % a.name, lambda a=a: M.AfterPreprocessing(get_a, a.make()), lambda v, a=a: a.sem(v.a), OBJ, [a])
        yield mk("MatchesStructure(a=%s)" % a.name, lambda a=a: M.MatchesStructure(a=a.make()), lambda v, a=a: a.sem(v.a), OBJ, [a])
        yield mk("MatchesDict({'x': %s})" % a.name, lambda a=a: M.MatchesDict({"x": a.make()}), lambda v, a=a: set(v) == {"x"} and a.sem(v["x"]), DICT, [a])
        yield mk("ContainsDict({'x': %s})" % a.name, lambda a=a: M.ContainsDict({"x": a.make()}), lambda v, a=a: "x" in v and a.sem(v["x"]), DICT, [a])
        yield mk("ContainedByDict({'x': %s})" % a.name, lambda a=a: M.ContainedByDict({"x": a.make()}), lambda v, a=a: set(v) <= {"x"} and ("x" not in v or a.sem(v["x"])), DICT, [a])
        yield mk("MatchesListwise([%s])" % a.name, lambda a=a: M.MatchesListwise([a.make()]), lambda v, a=a: len(v) == 1 and a.sem(v[0]), LIST, [a])
        for b in ileaves:
            yield mk("MatchesListwise([%s, %s])" % (a.name, b.name), lambda a=a, b=b: M.MatchesListwise([a.make(), b.make()]), lambda v, a=a, b=b: len(v) == 2 and a.sem(v[0]) and b.sem(v[1]), LIST, [a, b])
            yield mk("MatchesListwise([%s, %s], first_only=True)" % (b.name, a.name), lambda a=a, b=b: M.MatchesListwise([b.make(), a.make()], first_only=True), lambda v, a=a, b=b: len(v) == 2 and b.sem(v[0]) and a.sem(v[1]), LIST, [a, b])
            yield mk("MatchesSetwise(%s, %s)" % (a.name, b.name), lambda a=a, b=b: M.MatchesSetwise(a.make(), b.make()), lambda v, a=a, b=b: _setwise([a, b], list(v)), LIST, [a, b])
            yield mk("MatchesStructure(a=%s, b=%s)" % (a.name, b.name), lambda a=a, b=b: M.MatchesStructure(a=a.make(), b=b.make()), lambda v, a=a, b=b: a.sem(v.a) and b.sem(v.b), OBJ, [a, b])
            yield mk("MatchesDict({'x': %s, 'y': %s})" % (a.name, b.name), lambda a=a, b=b: M.MatchesDict({"x": a.make(), "y": b.make()}), lambda v, a=a, b=b: set(v) == {"x", "y"} and a.sem(v["x"]) and b.sem(v["y"]), DICT, [a, b])
            yield mk("ContainsDict({'x': %s, 'y': %s})" % (a.name, b.name), lambda a=a, b=b: M.ContainsDict({"x": a.make(), "y": b.make()}), lambda v, a=a, b=b: "x" in v and "y" in v and a.sem(v["x"]) and b.sem(v["y"]), DICT, [a, b])
            yield mk("ContainedByDict({'x': %s, 'y': %s})" % (a.name, b.name), lambda a=a, b=b: M.ContainedByDict({"x": a.make(), "y": b.make()}), lambda v, a=a, b=b: set(v) <= {"x", "y"} and all({"x": a, "y": b}[k].sem(v[k]) for k in v), DICT, [a, b])
    lists = children.get(LIST, {"new": [], "all": []})
    for a in lists["new"]:
        if a.depth > 1:
            continue  # keep the nested-collection level small
        yield mk("AllMatch<list>(%s)" % a.name, lambda a=a: M.AllMatch(a.make()), lambda v, a=a: all(a.sem(x) for x in v), LISTLIST, [a])
        yield mk("AnyMatch<list>(%s)" % a.name, lambda a=a: M.AnyMatch(a.make()), lambda v, a=a: any(a.sem(x) for x in v), LISTLIST, [a])
        yield mk("MatchesListwise<list>([%s])" % a.name, lambda a=a: M.MatchesListwise([a.make()]), lambda v, a=a: len(v) == 1 and a.sem(v[0]), LISTLIST, [a])
        yield mk("MatchesSetwise<list>(%s)" % a.name, lambda a=a: M.MatchesSetwise(a.make()), lambda v, a=a: len(v) == 1 and a.sem(v[0]), LISTLIST, [a])
        yield mk("MatchesDict<list>({'x': %s})" % a.name, lambda a=a: M.MatchesDict({"x": a.make()}), lambda v, a=a: sorted(v) == ["x"] and a.sem(v["x"]), DICTLIST, [a])
        yield mk("ContainsDict<list>({'x': %s})" % a.name, lambda a=a: M.ContainsDict({"x": a.make()}), lambda v, a=a: "x" in v and a.sem(v["x"]), DICTLIST, [a])
        yield mk("ContainedByDict<list>({'x': %s})" % a.name, lambda a=a: M.ContainedByDict({"x": a.make()}), lambda v, a=a: set(v) <= {"x"} and ("x" not in v or a.sem(v["x"])), DICTLIST, [a])
    strs = children.get(STR, {"new": [], "all": []})
    for a in strs["new"]:
        yield mk("AfterPreprocessing(str, %s)" % a.name, lambda a=a: M.AfterPreprocessing(str, a.make()), lambda v, a=a: a.sem(str(v)), INT, [a])
        yield mk("MatchesException(ValueError, %s over str)" % a.name, lambda a=a: M.MatchesException(ValueError, M.AfterPreprocessing(str, a.make())), lambda v, a=a: _isinst(v, ValueError) and a.sem(str(v[1])), EXC, [a])
        if scratch is not None:
            yield mk("FileContains(matcher=%s)" % a.name, lambda a=a: M.FileContains(matcher=a.make()), lambda v, a=a: os.path.isfile(v) and a.sem(open(v).read()), "pathfile", [a])
    if scratch is not None:
        for txt in ("x", "y"):
            yield Expr("FileContains(%r)" % txt, lambda txt=txt: M.FileContains(txt), lambda v, txt=txt: os.path.isfile(v) and open(v).read() == txt, "pathfile", depth=1)
        yield Expr("HasPermissions('0644')", lambda: M.HasPermissions("0644"), lambda v: oct(os.stat(v).st_mode)[-4:] == "0644", "pathexisting", depth=1)
        yield Expr("TarballContains(['b','a'])", lambda: M.TarballContains(["b", "a"]), lambda v: True, "pathtar", depth=1)
        yield Expr("TarballContains(['a'])", lambda: M.TarballContains(["a"]), lambda v: False, "pathtar", depth=1)
    sl = children.get(STRLIST, {"new": [], "all": []})
    if scratch is not None:
        for a in sl["new"]:
            yield mk("DirContains(matcher=%s)" % a.name, lambda a=a: M.DirContains(matcher=a.make()), lambda v, a=a: os.path.isdir(v) and a.sem(sorted(os.listdir(v))), PATH, [a])
    excs = children.get(EXC, {"new": [], "all": []})
    for a in excs["new"]:
        yield mk("Raises(%s)" % a.name, lambda a=a: M.Raises(a.make()), lambda v, a=a: _raises_sem(v, a), CALL, [a])
    if any(e.depth == 0 for e in excs["new"]) or not excs["new"] and not excs["all"]:
        pass
    return


def call_leaves():
    out = []
    out.append(Expr("Raises()", lambda: M.Raises(), lambda v: _raises_sem(v, None), CALL, depth=1))
    out.append(Expr("raises(ValueError)", lambda: M.raises(ValueError), lambda v: _raises_sem(v, Expr("x", None, lambda e: _isinst(e, ValueError), EXC)), CALL, depth=1))
    out.append(Expr("raises(ValueError('a'))", lambda: M.raises(ValueError("a")), lambda v: _raises_sem(v, Expr("x", None, lambda e: _isinst(e, ValueError) and e[1].args == ("a",), EXC)), CALL, depth=1))
    out.append(Expr("raises(KeyboardInterrupt)", lambda: M.raises(KeyboardInterrupt), lambda v: _raises_sem(v, Expr("x", None, lambda e: _isinst(e, KeyboardInterrupt), EXC)), CALL, depth=1))
    noraise = lambda f: call_outcome(f)[0] == "ret"
    out.append(Expr("Warnings()", lambda: M.Warnings(), lambda v: _warn_sem(v, lambda w: len(w) >= 1), CALL, depth=1, dom=noraise))
    out.append(Expr("IsDeprecated(Contains('deprecated'))", lambda: M.IsDeprecated(M.Contains("deprecated")), lambda v: _warn_sem(v, lambda w: len(w) == 1 and w[0].category is DeprecationWarning and "deprecated" in str(w[0].message)), CALL, depth=1, dom=noraise))
    out.append(Expr("Warnings(HasLength(2))", lambda: M.Warnings(M.HasLength(2)), lambda v: _warn_sem(v, lambda w: len(w) == 2), CALL, depth=1, dom=noraise))
    out.append(Expr("Warnings(MatchesListwise([WarningMessage(DeprecationWarning)]))", lambda: M.Warnings(M.MatchesListwise([M.WarningMessage(DeprecationWarning)])), lambda v: _warn_sem(v, lambda w: len(w) == 1 and w[0].category is DeprecationWarning), CALL, depth=1, dom=noraise))
    return out


def _not(x):
    if x == PROPAGATE:
        return x
    return not x


def _raises_sem(f, exc_expr):
    kind, payload, _ = call_outcome(f)
    if kind == "ret":
        return False
    matched = True if exc_expr is None else bool(exc_expr.sem(payload))
    if exc_expr is not None and matched:
        return True
    # not explicitly matched: a non-Exception error propagates out of match()
    if not isinstance(payload[1], Exception):
        return PROPAGATE
    return exc_expr is None


def _warn_sem(f, pred):
    kind, payload, w = call_outcome(f)
    if kind == "raise":
        return PROPAGATE if not isinstance(payload[1], Exception) else "raises"
    return bool(pred(w))


def _setwise(exprs, values):
    """Reference for MatchesSetwise: a one-to-one assignment of values to matchers exists."""
    if len(exprs) != len(values):
        return False
    for perm in itertools.permutations(range(len(values))):
        if all(exprs[i].sem(values[perm[i]]) for i in range(len(exprs))):
            return True
    return False


def enumerate_exprs(max_depth, scratch=None, cap_per_type=None, cap_from_depth=3):
    """-> list of Expr, breadth-first by depth."""
    lv = leaves(scratch)
    by_type = {}
    for e in lv:
        by_type.setdefault(e.type, []).append(e)
    out = list(lv)
    cl = call_leaves()
    out.extend(cl)
    level = {t: {"new": list(es), "all": list(es), "leaves": list(es)} for t, es in by_type.items()}
    level[CALL] = {"new": list(cl), "all": list(cl), "leaves": list(cl)}
    seen = {e.name for e in out}
    for depth in range(1, max_depth + 1):
        produced = {}
        if cap_per_type is not None and depth >= cap_from_depth:
            # a capped level is built from an evenly spaced subset of the previous level's
            # expressions (all leaves stay as second operands): the full product of a level that
            # is going to be sub-sampled anyway is never materialised (it does not fit in memory)
            keep = max(200, cap_per_type // 10)
            thinned = {}
            for t, g in level.items():
                newx = g["new"]
                if len(newx) > keep:
                    step = len(newx) / float(keep)
                    newx = [newx[int(i * step)] for i in range(keep)]
                thinned[t] = dict(g, new=newx)
            level = thinned
        for e in combinators(level, scratch, first_only_variants=(depth == 1)):
            if e.name in seen:
                continue
            seen.add(e.name)
            produced.setdefault(e.type, []).append(e)
        nxt = {}
        for t in set(level) | set(produced):
            newx = produced.get(t, [])
            if cap_per_type is not None and depth >= cap_from_depth and len(newx) > cap_per_type:
                # keep an evenly spaced subset (deterministic) when a level explodes
                step = len(newx) / float(cap_per_type)
                newx = [newx[int(i * step)] for i in range(cap_per_type)]
            old = level.get(t, {"all": [], "leaves": []})
            nxt[t] = {"new": newx, "all": old["all"] + newx, "leaves": old.get("leaves", [])}
            out.extend(newx)
        level = nxt
    return out


def values_for(expr, doms):
    t = expr.type
    if t == "pathfile":
        return [p for p in doms.get(PATH, []) if not os.path.isdir(p) and not p.endswith(".tar")]
    if t == "pathexisting":
        return [p for p in doms.get(PATH, []) if os.path.exists(p)]
    if t == "pathtar":
        return [p for p in doms.get(PATH, []) if p.endswith(".tar")]
    vals = doms.get(t, [])
    if t == CALL and not expr.linear:
        vals = [v for v in vals if v is not _raise_kbi and v is not _raise_abort]
    if expr.dom is not None:
        vals = [v for v in vals if expr.dom(v)]
    return vals
