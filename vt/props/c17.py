"""C17 — tags are scoped: test-local changes never leak, run-level changes persist."""

import io
import itertools
import threading

import testtools
from testtools import PlaceHolder
from testtools.content import text_content
from testtools.testresult.real import (
    ExtendedToOriginalDecorator,
    ExtendedToStreamDecorator,
    MultiTestResult,
    StreamToDict,
    StreamToExtendedDecorator,
    Tagger,
    TestByTestResult,
    TestResultDecorator,
    TextTestResult,
    ThreadsafeForwardingResult,
)

from vt import recorders as rec
from vt.explore.bfs import bfs
from vt.runner import ShardResult
from vt.snapshot import snapshot

PROPERTY = "C17"

MANIFEST_INFO = {
    "engine": "B",
    "design_ref": "DESIGN.md section 5, C17",
    "technique": "explicit-state BFS over histories of startTestRun/tags/startTest/outcome/stopTest calls replayed on fresh real result objects and adapter chains, canonical-state merging, G/L tag-scope reference model compared at every state",
    "level_text": "All well-formed call histories up to the depth bound (8 quick, 11 thorough) over 15 operations (8 tag changes over {a,b}, two outcomes (and a second outcome for the same test), the startTest-less addSkip+stopTest pair, a lone class-level addSkip, a tagged PlaceHolder; the sets passed to tags() are cleared and refilled by the caller afterwards) are applied to every result class and adapter chain in scope (incl. testtools' own recording double); current_tags is compared with the model in every reachable state and the tags observed by wrapped results / stream consumers at each outcome are compared with the reporter's model tags.",
    "level_note": "Trusts the harness recorders and the 10-line tag model; tag universe {a,b,p,x}; histories are well-formed (one or two outcomes per test, startTestRun only outside tests).",
}

TAG_OPS = []
for a_state, b_state in itertools.product((0, 1, 2), repeat=2):
    new = frozenset(t for t, s in (("a", a_state), ("b", b_state)) if s == 1)
    gone = frozenset(t for t, s in (("a", a_state), ("b", b_state)) if s == 2)
    if new or gone:
        TAG_OPS.append(("tags", new, gone))
TAG_OPS = tuple(TAG_OPS)


class TagExt(rec.Ext):
    """Extended recorder that notes its own current tags at each outcome."""

    def __init__(self):
        rec.Ext.__init__(self)
        self.seen = []

    def _note(self):
        self.seen.append(frozenset(self.current_tags))


class TagTT(rec.TT):
    def __init__(self):
        self.seen = []
        rec.TT.__init__(self)

    def _note(self):
        self.seen.append(frozenset(self.current_tags))


def _wrap_outcomes(cls, base):
    for name in rec.OUTCOMES:
        def make(name):
            def m(self, *a, **kw):
                self._note()
                return getattr(base, name)(self, *a, **kw)
            m.__name__ = name
            return m
        setattr(cls, name, make(name))


_wrap_outcomes(TagExt, rec.Ext)
_wrap_outcomes(TagTT, rec.TT)


class Impl:
    def __init__(self, top, observers=(), sinks=(), tagger=(frozenset(), frozenset()), skippair=True, stream_sink=None, dict_sink=None, tbtr=None, inner_tagger=frozenset(), branch=None):
        self.inner_tagger = inner_tagger
        # (new, gone) of a Tagger that sits in front of observers[0] ONLY (a sibling sees the
        # reporter's own tags)
        self.branch = branch
        self.retained = []  # (tag set object handed to a consumer, frozen copy at that time)
        self.top = top
        self.observers = list(observers)  # recorders with .seen
        self.sinks = list(sinks)  # things with .log to clear
        self.tagger = tagger
        self.skippair = skippair
        self.stream_sink = stream_sink
        self.dict_sink = dict_sink
        self.tbtr = tbtr


def _sem():
    return threading.Semaphore(1)


def build(name):
    if name == "TestResult":
        return Impl(testtools.TestResult())
    if name == "TextTestResult":
        return Impl(TextTestResult(io.StringIO()))
    if name == "Multi(Ext)":
        e = TagExt()
        return Impl(MultiTestResult(e), [e], [e])
    if name == "Multi(Ext,TT)":
        e, t = TagExt(), TagTT()
        return Impl(MultiTestResult(e, t), [e, t], [e, t])
    if name == "TFR(Ext)":
        e = TagExt()
        return Impl(ThreadsafeForwardingResult(e, _sem()), [e], [e])
    if name == "TFR(TT)":
        t = TagTT()
        return Impl(ThreadsafeForwardingResult(t, _sem()), [t], [t])
    if name == "ETOD(Py27)":
        p = rec.Py27()
        return Impl(ExtendedToOriginalDecorator(p), [], [p])
    if name == "ETOD(Ext)":
        e = TagExt()
        return Impl(ExtendedToOriginalDecorator(e), [e], [e])
    if name == "ETOD(TT)":
        t = TagTT()
        return Impl(ExtendedToOriginalDecorator(t), [t], [t])
    if name == "ETSD(Stream)":
        s = rec.Stream()
        return Impl(ExtendedToStreamDecorator(s), [], [s], stream_sink=s)
    if name == "Decorator(TT)":
        t = TagTT()
        return Impl(TestResultDecorator(t), [t], [t])
    if name == "Tagger(TT)":
        t = TagTT()
        return Impl(Tagger(t, {"x"}, {"a"}), [t], [t], tagger=(frozenset("x"), frozenset("a")))
    if name == "Tagger(Ext)":
        e = TagExt()
        return Impl(Tagger(e, {"x"}, set()), [e], [e], tagger=(frozenset("x"), frozenset()), skippair=True)
    if name == "TBTR":
        calls = []
        r = TestByTestResult(lambda **kw: calls.append(kw))
        # a startTest-less stopTest has no start time to report: outside TestByTestResult's contract
        return Impl(r, tbtr=calls, skippair=False)
    if name == "ETSD>STE>Ext":
        e = TagExt()
        return Impl(ExtendedToStreamDecorator(StreamToExtendedDecorator(e)), [e], [e])
    if name == "ETSD>StreamToDict":
        dicts = []
        return Impl(ExtendedToStreamDecorator(StreamToDict(dicts.append)), dict_sink=dicts)
    if name == "Multi(TFR(Ext))":
        e = TagExt()
        return Impl(MultiTestResult(ThreadsafeForwardingResult(e, _sem())), [e], [e])
    if name == "TFR(Multi(Ext))":
        e = TagExt()
        return Impl(ThreadsafeForwardingResult(MultiTestResult(e), _sem()), [e], [e])
    if name == "ETOD(ETOD(Ext))":
        e = TagExt()
        return Impl(ExtendedToOriginalDecorator(ExtendedToOriginalDecorator(e)), [e], [e])
    if name == "TFR(Tagger(Ext))":
        e = TagExt()
        return Impl(ThreadsafeForwardingResult(Tagger(e, {"x"}, set()), _sem()), [e], [e], inner_tagger=frozenset("x"))
    if name == "doubles.ExtendedTestResult":
        # testtools' own recording double (public: other projects' suites use it)
        from testtools.testresult.doubles import ExtendedTestResult as DoubleExt

        return Impl(DoubleExt())
    if name == "Multi(Tagger(Ext),Ext)":
        e1, e2 = TagExt(), TagExt()
        return Impl(MultiTestResult(Tagger(e1, {"x"}, {"a"}), e2), [e1, e2], [e1, e2], branch=(frozenset("x"), frozenset("a")))
    if name == "Multi(ETSD>STE>Ext)":
        e = TagExt()
        return Impl(MultiTestResult(ExtendedToStreamDecorator(StreamToExtendedDecorator(e))), [e], [e])
    raise AssertionError(name)


CONFIGS = (
    "TestResult",
    "TextTestResult",
    "Multi(Ext)",
    "Multi(Ext,TT)",
    "TFR(Ext)",
    "TFR(TT)",
    "ETOD(Py27)",
    "ETOD(Ext)",
    "ETOD(TT)",
    "ETSD(Stream)",
    "Decorator(TT)",
    "Tagger(TT)",
    "Tagger(Ext)",
    "TBTR",
    "ETSD>STE>Ext",
    "ETSD>StreamToDict",
    "Multi(TFR(Ext))",
    "TFR(Multi(Ext))",
    "ETOD(ETOD(Ext))",
    "TFR(Tagger(Ext))",
    "Multi(ETSD>STE>Ext)",
    "Multi(Tagger(Ext),Ext)",
    "doubles.ExtendedTestResult",
)

# where the observed tags are a function of forwarded tag calls that only happen inside tests
# (TFR coerces run-level tags into test scope), the *outer* current_tags is still the reporter's.


class Model:
    __slots__ = ("G", "L", "LB", "in_test", "has_outcome", "tests", "runs")

    def __init__(self):
        self.G = frozenset()
        self.L = None
        self.LB = None  # the tags in effect behind a branch Tagger
        self.in_test = False
        self.has_outcome = False
        self.tests = 0
        self.runs = 0

    def current(self):
        return self.L if self.in_test else self.G

    def key(self):
        return (self.G, self.L, self.LB, self.in_test, self.has_outcome, self.runs > 0, self.tests)


T1 = PlaceHolder("t")


class System:
    stop_at_violation = True

    def __init__(self, name, max_tests):
        self.name = name
        self.max_tests = max_tests
        self.skippair = build(name).skippair

    def fresh(self):
        impl = build(self.name)
        model = Model()
        # results used by older clients may never get startTestRun: we always start a run
        # explicitly as the first op in ops() instead (model.runs == 0 state has only that op)
        return impl, model

    def ops(self, m):
        if m.runs == 0:
            # the statement speaks of tags "since startTestRun": every history starts a run first
            return [("startTestRun",)]
        out = []
        if not m.in_test:
            out.append(("startTestRun",))
            if m.tests < self.max_tests:
                out.append(("startTest",))
                if self.skippair:
                    out.append(("skippair",))
                    out.append(("classskip",))
                out.append(("placeholder",))
                out.append(("placeholder_a",))
        elif not m.has_outcome:
            out.append(("addSuccess",))
            out.append(("addFailure",))
        else:
            out.append(("stopTest",))
            if m.has_outcome == 1:
                # a second outcome for the same test (an error reported on top of a failure)
                out.append(("addFailure",))
        out.extend(TAG_OPS)
        return out

    def apply(self, impl, m, op, check):
        top = impl.top
        name = op[0]
        problems = []
        expect_seen = None
        expect_branch = None
        tg_new, tg_gone = impl.tagger
        b_new, b_gone = impl.branch or (frozenset(), frozenset())
        try:
            if name == "startTestRun":
                top.startTestRun()
                m.G = frozenset()
                m.L = None
                m.LB = None
                m.in_test = False
                m.runs += 1
            elif name == "tags":
                # (the two sets are the caller's: it goes on using them for something else)
                new_set, gone_set = set(op[1]), set(op[2])
                top.tags(new_set, gone_set)
                new_set.clear()
                gone_set.clear()
                new_set.add("caller's-own-1")
                gone_set.add("caller's-own-2")
                if m.in_test:
                    m.L = (m.L | op[1]) - op[2]
                    m.LB = (m.LB | op[1]) - op[2]
                else:
                    m.G = (m.G | op[1]) - op[2]
            elif name == "startTest":
                top.startTest(T1)
                m.in_test = True
                m.has_outcome = False
                m.L = (m.G | tg_new) - tg_gone
                m.LB = (m.G | b_new) - b_gone
                m.tests += 1
            elif name in ("addSuccess", "addFailure"):
                if name == "addSuccess":
                    top.addSuccess(T1)
                else:
                    top.addFailure(T1, details={"d": text_content("x")})
                m.has_outcome = int(m.has_outcome) + 1
                expect_seen = m.L
                expect_branch = m.LB
            elif name == "stopTest":
                top.stopTest(T1)
                m.in_test = False
                m.L = None
                m.LB = None
            elif name == "skippair":
                # what unittest 3.12.1 emits for a skipped stdlib test: no startTest
                top.addSkip(T1, "why")
                top.stopTest(T1)
                m.tests += 1
                expect_seen = m.G
                expect_branch = m.G  # (a Tagger adds its tags at startTest, which never came)
            elif name == "classskip":
                # what unittest's suite emits when setUpClass skips: a lone addSkip for a pseudo
                # test, neither startTest before it nor stopTest after it
                top.addSkip(T1, "class-level why")
                m.tests += 1
                expect_seen = m.G
                expect_branch = m.G
            elif name == "placeholder_a":
                # a PlaceHolder carrying a tag that may be current at run level already (a replayed
                # test of a worker whose tag the run carries): the run-level tag survives it
                PlaceHolder("ph", tags={"a"}).run(top)
                m.tests += 1
                expect_seen = (m.G | {"a"} | tg_new) - tg_gone
                expect_branch = (m.G | {"a"} | b_new) - b_gone  # (that Tagger may strip 'a' inside the test)
                if "a" not in m.G:
                    m.G = m.G - {"a"}
            elif name == "placeholder":
                PlaceHolder("ph", tags={"p"}).run(top)
                m.tests += 1
                expect_seen = (m.G | {"p"} | tg_new) - tg_gone
                expect_branch = ((m.G | b_new) - b_gone) | {"p"}
                m.G = m.G - {"p"}
            else:
                raise AssertionError(op)
        except Exception as e:
            if check:
                problems.append(("call-raised", "%s raised %s: %s" % (name, type(e).__name__, e)))
            return problems
        if check:
            cur = self._read_current(top)
            if cur is not _NA:
                if isinstance(cur, Exception):
                    problems.append(("current_tags", "reading current_tags raised %s: %s" % (type(cur).__name__, cur)))
                elif frozenset(cur) != m.current():
                    problems.append(("current_tags", "current_tags == %r, model says %r" % (sorted(cur), sorted(m.current()))))
            if expect_seen is not None:
                expect_seen = frozenset(expect_seen | impl.inner_tagger)
                for oi, o in enumerate(impl.observers):
                    if impl.branch is not None and oi == 0:
                        if o.seen != [frozenset(expect_branch)]:
                            problems.append(("observed-tags", "%s behind the Tagger saw tags %r at the outcome, expected %r" % (type(o).__name__, [sorted(s) for s in o.seen], sorted(expect_branch))))
                        continue
                    if o.seen != [expect_seen]:
                        problems.append(("observed-tags", "%s saw tags %r at the outcome, reporter's tags were %r" % (type(o).__name__, [sorted(s) for s in o.seen], sorted(expect_seen))))
                if impl.stream_sink is not None:
                    finals = [d for (n, *r) in impl.stream_sink.log if n == "status" for d in r if d["test_status"] not in (None, "inprogress")]
                    got = [frozenset(d["test_tags"] or ()) for d in finals]
                    if got != [expect_seen]:
                        problems.append(("observed-tags", "final status event(s) carried tags %r, reporter's tags were %r" % ([sorted(s) for s in got], sorted(expect_seen))))
                if impl.dict_sink is not None:
                    got = [frozenset(d["tags"] or ()) for d in impl.dict_sink]
                    if got != [expect_seen]:
                        problems.append(("observed-tags", "StreamToDict reported tags %r, reporter's tags were %r" % ([sorted(s) for s in got], sorted(expect_seen))))
        # tag sets already handed to a stream consumer must not change afterwards
        if impl.stream_sink is not None:
            for e in impl.stream_sink.log:
                if e[0] == "status" and e[1]["test_tags"] is not None:
                    impl.retained.append((e[1]["test_tags"], frozenset(e[1]["test_tags"])))
        if impl.dict_sink is not None:
            for d in impl.dict_sink:
                if d["tags"] is not None:
                    impl.retained.append((d["tags"], frozenset(d["tags"])))
        if check:
            for obj, frozen in impl.retained:
                if frozenset(obj) != frozen:
                    problems.append(("observed-tags-retroactive", "a tag set reported earlier as %r has since become %r" % (sorted(frozen), sorted(obj))))
                    break
        # consume harness logs so that canonical states only hold persistent state
        if isinstance(getattr(top, "_events", None), list):
            del top._events[:]  # (testtools' recording double keeps every call)
        for o in impl.observers:
            del o.seen[:]
        for s in impl.sinks:
            del s.log[:]
        if impl.dict_sink is not None:
            del impl.dict_sink[:]
        if impl.tbtr is not None:
            del impl.tbtr[:]
        return problems

    def _read_current(self, top):
        if not hasattr(type(top), "current_tags"):
            return _NA
        try:
            return top.current_tags
        except Exception as e:
            return e

    def canon(self, impl, m):
        try:
            return (m.key(), snapshot(impl.top, time_token=True))
        except Exception:
            return None

    def fingerprint(self, clause, hist, msg):
        names = [o[0] for o in hist]
        if clause in ("current_tags", "call-raised") and "skippair" in names:
            return "C17/%s/%s/after-startTest-less-skip" % (clause, self.name)
        if clause == "observed-tags" and names.count("startTestRun") >= 2:
            return "C17/observed-tags/%s/after-second-startTestRun" % self.name
        if clause == "observed-tags":
            # tags issued between outcome and stopTest?
            for i, n in enumerate(names):
                if n == "tags" and i > 0:
                    j = i - 1
                    while j >= 0 and names[j] == "tags":
                        j -= 1
                    if j >= 0 and names[j] in ("addSuccess", "addFailure"):
                        return "C17/observed-tags/%s/tags-between-outcome-and-stopTest" % self.name
        return "C17/%s/%s" % (clause, self.name)

    def replay_data(self, hist):
        return {"config": self.name, "history": [[o[0]] + [sorted(x) for x in o[1:]] for o in hist]}


_NA = object()


def shards(tier):
    return list(CONFIGS)


def run_shard(name, tier, seed):
    res = ShardResult()
    depth = 8 if tier == "quick" else 11
    max_tests = 2 if tier == "quick" else 3
    sysm = System(name, max_tests)
    bfs(sysm, depth, res, label=name, sample_every=997)
    if res.notes.get("max_depth", 0) < min(depth, 7) and not res.violations:
        # guards against a vacuous search (a canonical state that wrongly absorbs its successors)
        raise AssertionError("C17 exploration of %s stopped at depth %r < %d" % (name, res.notes.get("max_depth"), min(depth, 7)))
    res.notes["depth"] = depth
    return res


def meta(tier):
    return {
        "technique": MANIFEST_INFO["technique"],
        "rule": "BFS over well-formed histories; a state is (model state, structural snapshot of the real object graph); non-trivial = any state other than the initial one; distinct = distinct canonical states per configuration",
        "bounds": {"depth": 8 if tier == "quick" else 11, "tests": 2 if tier == "quick" else 3, "configurations": list(CONFIGS), "ops": 15},
        "assumptions": [
            "tags(new, gone) always has disjoint new/gone",
            "the startTest-less pair is addSkip(test, reason) followed by stopTest(test), outside any test",
            "observed-tags is checked for ThreadsafeForwardingResult, MultiTestResult, Tagger, TestResultDecorator, ExtendedToOriginalDecorator, PlaceHolder, ExtendedToStreamDecorator(+StreamToExtendedDecorator/StreamToDict); TestByTestResult only for current_tags",
        ],
    }


def replay(data):
    sysm = System(data["config"], 99)
    impl, m = sysm.fresh()
    out = []
    ok = True
    for o in data["history"]:
        op = (o[0],) + tuple(frozenset(x) for x in o[1:])
        problems = sysm.apply(impl, m, op, True)
        out.append("%r -> model current=%r problems=%r" % (op, sorted(m.current() or ()), problems))
        if problems:
            ok = False
    return ok, "\n".join(out)
