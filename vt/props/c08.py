"""C08 — result adapters deliver each call once, at the richest protocol the target has."""

import datetime
import itertools
import sys

import testtools
from testtools import PlaceHolder
from testtools.content import Content, text_content
from testtools.content_type import ContentType
from testtools.testresult.real import (
    ExtendedToOriginalDecorator,
    MultiTestResult,
    Tagger,
    TestByTestResult,
    TestResultDecorator,
)

from vt import recorders as rec
from vt.explore.chooser import obs_hash
from vt.runner import ShardResult

PROPERTY = "C08"

MANIFEST_INFO = {
    "engine": "B",
    "design_ref": "DESIGN.md section 5, C08",
    "technique": "exhaustive enumeration of well-formed TestResult call histories (startTestRun, tags, time, startTest, six outcomes as exc_info / reason / four details shapes, stopTest, progress, stopTestRun, stop, done; TestCase and PlaceHolder/ErrorHolder tests) x every adapter stack of depth 1..3 over five target flavours, each history replayed on fresh real objects; per-target expected log derived from the documented degradation table",
    "level_text": "For every stack of ExtendedToOriginalDecorator / MultiTestResult (1-2 branches) / TestResultDecorator / Tagger of depth <= 2 (quick) / 3 (thorough) over 2.6-style, 2.7-style, extended, Twisted-style and testtools.TestResult targets, plus TestByTestResult, and every history of <= 2 (quick) / 3 (thorough, reduced alphabet) tests over 60 test variants (incl. a failure carrying a text detail that is not valid in its declared charset), every innermost target's log is projected onto startTest/outcome/stopTest and compared with the reported sequence mapped through the degradation table (exactly once, in order, nothing extra), details-to-text containment, unchanged details for extended targets, Tagger tags inside the test, one TestByTestResult callback per test with its times (the second test's clock is set back while it runs)/tags/details/status, one startTestRun/stopTestRun per run at every target (stop() and done() after it are no further runs), and no failing outcome delivered as a passing one.",
    "level_note": "Non-extended targets always sit directly under an ExtendedToOriginalDecorator or MultiTestResult (TestResultDecorator/Tagger pass details= through unchanged by design); for unexpected success TestByTestResult's status word may be 'success' (as documented) or a failing word.",
}

UTC = datetime.timezone.utc


def ts(n):
    return datetime.datetime(2022, 2, 2, 0, 0, n, tzinfo=UTC)


class _Case(testtools.TestCase):
    def test_x(self):
        pass


TXT = ContentType("text", "plain", {"charset": "utf8"})
BIN = ContentType("application", "octet-stream")


def make_details(shape, marker):
    if shape == "text":
        return {"d": text_content(marker + "-text")}
    if shape == "binary+empty":
        return {"b": Content(BIN, lambda: [b"\xff\x00"]), "e": Content(TXT, lambda: [])}
    if shape == "several":
        return {"d1": text_content(marker + "-one"), "d2": Content(TXT, lambda: [(marker + "-two\nline2").encode("utf8")]), "traceback": text_content(marker + "-tb"), "traceback-1": text_content(marker + "-later")}
    if shape == "reason":
        return {"reason": text_content(marker + "-why"), "d": text_content(marker + "-text")}
    if shape == "badtext":
        # a captured log declared as UTF-8 text that is not valid UTF-8 (a child process wrote Latin-1)
        return {"d": text_content(marker + "-text"), "log": Content(TXT, lambda: [b"caf\xe9 \xff log"])}
    if shape == "emptydict":
        return {}  # what PlaceHolder(...).run() passes when it was given no details
    raise AssertionError(shape)


def exc_info_for(kind, marker):
    try:
        if kind == "addFailure":
            raise AssertionError(marker + "-exc")
        raise ValueError(marker + "-exc")
    except Exception:
        return sys.exc_info()


# (outcome, form): form in none|exc|reason|text|binary+empty|several|reason-details
VARIANTS = []
for o in ("addSuccess", "addUnexpectedSuccess"):
    for f in ("none", "text", "binary+empty", "several", "emptydict"):
        VARIANTS.append((o, f))
for o in ("addError", "addFailure", "addExpectedFailure"):
    for f in ("exc", "text", "binary+empty", "several", "emptydict"):
        VARIANTS.append((o, f))
VARIANTS.append(("addError", "badtext"))
VARIANTS.append(("addFailure", "badtext"))
for f in ("reasonarg", "text", "reason", "several", "emptydict", "emptyreason"):
    VARIANTS.append(("addSkip", f))
TEST_KINDS = ("case", "placeholder")
FAILING = ("addError", "addFailure", "addUnexpectedSuccess")


def make_test(kind, n):
    if kind == "case":
        t = _Case("test_x")
        t._vt_n = n
        return t
    return PlaceHolder("ph%d" % n)


# ---------------------------------------------------------------------------
# stacks


class TBTRSink:
    def __init__(self):
        self.calls = []

    def __call__(self, **kw):
        if isinstance(kw.get("details"), dict):
            kw["details"] = dict(kw["details"])  # (the dict may be the reporter's own, refilled later)
        self.calls.append(kw)


def make_target(flavour):
    if flavour == "py26":
        return rec.Py26()
    if flavour == "py27":
        return rec.Py27()
    if flavour == "ext":
        return rec.Ext()
    if flavour == "twisted":
        return rec.Twisted()
    if flavour == "tt":
        return rec.TT()
    raise AssertionError(flavour)


FLAVOURS = ("py26", "py27", "ext", "twisted", "tt")
EXTENDED = ("ext", "tt")
LAYERS = ("etod", "multi1", "multi2", "decorator", "tagger")


def build_stack(flavour, layers):
    """-> (top, [(flavour, target object, tagger_tags_on_path)]).  layers[0] is the innermost adapter."""
    targets = []
    if flavour == "tbtr":
        sink = TBTRSink()
        obj = TestByTestResult(sink)
        targets.append(("tbtr", sink, ()))
    else:
        obj = make_target(flavour)
        targets.append((flavour, obj, ()))
    for layer in layers:
        if layer == "etod":
            obj = ExtendedToOriginalDecorator(obj)
        elif layer == "multi1":
            obj = MultiTestResult(obj)
        elif layer == "multi2":
            extra = rec.Ext()
            obj = MultiTestResult(obj, extra)
            targets.append(("ext", extra, ()))
        elif layer == "decorator":
            obj = TestResultDecorator(obj)
        elif layer == "tagger":
            # (the two collections are the caller's: it goes on to use them for something else)
            new_tags, gone_tags = {"tg"}, set()
            obj = Tagger(obj, new_tags, gone_tags)
            new_tags.clear()
            new_tags.add("caller's-own")
            gone_tags.add("tg")
            targets = [(f, t, tags + ("tg",)) for f, t, tags in targets]
        else:
            raise AssertionError(layer)
    return obj, targets


def all_stacks(max_depth):
    out = []
    for flavour in FLAVOURS + ("tbtr",):
        extended = flavour in EXTENDED or flavour == "tbtr"
        for depth in range(1, max_depth + 1):
            for layers in itertools.product(LAYERS, repeat=depth):
                if not extended and layers[0] not in ("etod", "multi1", "multi2"):
                    continue
                out.append((flavour, layers))
    return out


# ---------------------------------------------------------------------------


def stop_ts(n):
    # the second test's clock is set back while it runs ("Time is permitted to go backwards")
    return ts(2 * n + 2) if n != 1 else ts(2 * n)


def run_history(stack, tests, with_run_ops):
    """tests: list of (test kind, outcome, form).  -> problems"""
    flavour, layers = stack
    top, targets = build_stack(flavour, layers)
    problems = []
    reported = []
    shared_details = {}
    try:
        if with_run_ops:
            top.startTestRun()
            top.tags({"run"}, set())
        for n, (tk, outcome, form) in enumerate(tests):
            t = make_test(tk, n)
            marker = "m%d" % n
            top.time(ts(2 * n + 1))
            top.startTest(t)
            top.tags({"in%d" % n}, set())
            top.time(stop_ts(n))
            details = None
            if form == "none":
                getattr(top, outcome)(t)
            elif form == "exc":
                getattr(top, outcome)(t, exc_info_for(outcome, marker))
            elif form == "reasonarg":
                top.addSkip(t, marker + "-why")
            elif form == "emptyreason":
                top.addSkip(t, "")  # what @unittest.skip("") and skipTest("") produce
            else:
                # (one dict object, emptied and refilled by the reporter for each of its outcomes)
                shared_details.clear()
                shared_details.update(make_details(form, marker))
                getattr(top, outcome)(t, details=shared_details)
                details = dict(shared_details)
            top.stopTest(t)
            reported.append((t, outcome, form, marker, details, n))
        if with_run_ops:
            # progress()/done() are optional protocol methods that not every result defines
            for optional in (lambda: top.progress(1, 1), lambda: None):
                try:
                    optional()
                except AttributeError:
                    pass
            top.stopTestRun()
            top.stop()
            try:
                top.done()
            except AttributeError:
                pass
    except Exception as e:
        clause = "call-raised"
        k = len(reported)
        if k < len(tests) and tests[k][0] == "placeholder" and tests[k][1] == "addUnexpectedSuccess":
            clause = "call-raised/uxsuccess-of-PlaceHolder-on-result-without-addUnexpectedSuccess"
        problems.append((clause, "%s: %s (after %d reported tests)" % (type(e).__name__, str(e)[:120], len(reported))))
        return problems
    for tflavour, target, tagger_tags in targets:
        if tflavour == "tbtr":
            problems.extend(check_tbtr(target, reported, tagger_tags, with_run_ops))
        else:
            problems.extend(check_target(tflavour, target, reported, tagger_tags, with_run_ops))
    if with_run_ops and reported and not problems and any(t[0] == "tbtr" for t in targets):
        # the same objects used for a second run, in which nobody supplies a time: the callback's
        # start/stop times are then the clock's, not the last time() of the first run
        import datetime

        utc = datetime.timezone.utc
        sink = [t[1] for t in targets if t[0] == "tbtr"][0]
        before = datetime.datetime.now(utc)
        try:
            top.startTestRun()
            t = make_test("placeholder", 99)
            top.startTest(t)
            top.addSuccess(t)
            top.stopTest(t)
            top.stopTestRun()
        except Exception as e:
            problems.append(("call-raised", "second run: %s: %s" % (type(e).__name__, str(e)[:120])))
            return problems
        after = datetime.datetime.now(utc)
        call = sink.calls[-1] if len(sink.calls) == len(reported) + 1 else None
        if call is None or call["test"] is not t:
            problems.append(("tbtr", "second run: %d callbacks after %d + 1 tests" % (len(sink.calls), len(reported))))
        elif not (before <= call["start_time"] <= call["stop_time"] <= after):
            problems.append(("tbtr-times", "second run without time(): callback times %r..%r, the test ran between %r and %r" % (call["start_time"], call["stop_time"], before, after)))
        if not problems:
            # a third run: a time is supplied for its first test and withdrawn again (time(None))
            # before its second, which is then timed by the clock
            try:
                top.startTestRun()
                top.time(ts(50))
                ta = make_test("placeholder", 100)
                top.startTest(ta)
                top.addSuccess(ta)
                top.stopTest(ta)
                top.time(None)
                tb = make_test("placeholder", 101)
                top.startTest(tb)
                top.addSuccess(tb)
                top.stopTest(tb)
                top.time(ts(50))
                tc = make_test("placeholder", 102)
                top.startTest(tc)
                top.addSuccess(tc)
                top.stopTest(tc)
                top.stopTestRun()
                # a fourth run, whose first supplied time happens to equal the last one of the third
                top.startTestRun()
                top.time(ts(50))
                td = make_test("placeholder", 103)
                top.startTest(td)
                top.addSuccess(td)
                top.stopTest(td)
                top.stopTestRun()
            except Exception as e:
                problems.append(("call-raised", "third run: %s: %s" % (type(e).__name__, str(e)[:120])))
                return problems
            after = datetime.datetime.now(utc)
            ca, cb, cc, cd = sink.calls[-4:]
            if (ca["start_time"], ca["stop_time"]) != (ts(50), ts(50)) or not (before <= cb["start_time"] <= cb["stop_time"] <= after):
                problems.append(("tbtr-times", "third run, time(t) then time(None): callback times %r..%r and %r..%r" % (ca["start_time"], ca["stop_time"], cb["start_time"], cb["stop_time"])))
            if (cc["start_time"], cc["stop_time"], cd["start_time"], cd["stop_time"]) != (ts(50),) * 4:
                problems.append(("tbtr-times", "time(t) again at the end of the third run and at the start of the fourth: callback times %r..%r and %r..%r, expected %r throughout" % (cc["start_time"], cc["stop_time"], cd["start_time"], cd["stop_time"], ts(50))))
    return problems


def expected_delivery(flavour, outcome):
    """Allowed delivered outcome names for ``outcome`` on a target of ``flavour``."""
    if flavour == "py26":
        return {
            "addSuccess": ("addSuccess",),
            "addError": ("addError",),
            "addFailure": ("addFailure",),
            "addSkip": ("addSuccess",),
            "addExpectedFailure": ("addSuccess",),
            "addUnexpectedSuccess": ("addFailure",),
        }[outcome]
    return (outcome,)


def text_of(x):
    if x is None:
        return ""
    if isinstance(x, tuple) and len(x) == 3:
        return "%s" % (x[1],)
    if isinstance(x, dict):
        return " ".join(b"".join(c.iter_bytes()).decode("utf8", "replace") for c in x.values())
    return str(x)


def detail_texts(details):
    out = []
    for name, c in (details or {}).items():
        if c.content_type.type == "text":
            try:
                t = c.as_text().strip()
            except UnicodeDecodeError:
                continue  # (what cannot be decoded cannot be looked for: the other details still can)
            if t:
                out.append(t)
    return out


def check_target(flavour, target, reported, tagger_tags, with_run_ops):
    problems = []
    log = target.log
    proj = [(e[0], e[1]) for e in log if e[0] in ("startTest", "stopTest") or e[0] in rec.OUTCOMES]
    idx = 0
    for t, outcome, form, marker, details, n in reported:
        allowed = expected_delivery(flavour, outcome)
        block = proj[idx : idx + 3]
        idx += 3
        ok = len(block) == 3 and block[0] == ("startTest", t) and block[2] == ("stopTest", t) and block[1][1] is t and block[1][0] in allowed
        if not ok:
            problems.append(("delivery", "%s target: reported %s(%s) for test #%d, target saw %r (projection %r)" % (flavour, outcome, form, n, [(b[0]) for b in block], [p[0] for p in proj])))
            return problems
        if outcome in FAILING and block[1][0] not in FAILING:
            problems.append(("failing-became-passing", "%s target: %s delivered as %s" % (flavour, outcome, block[1][0])))
        # payload of the delivered outcome
        ev = [e for e in log if e[0] == block[1][0] and e[1] is t][0]
        if details is not None:
            if flavour in EXTENDED:
                got = ev[3] if len(ev) > 3 else None
                if got is None or set(got) != set(details) or any(b"".join(got[k].iter_bytes()) != b"".join(details[k].iter_bytes()) or got[k].content_type != details[k].content_type for k in details):
                    problems.append(("details", "%s target: details of %s not delivered unchanged: %r" % (flavour, outcome, got)))
            elif len(ev) > 2 and block[1][0] in ("addError", "addFailure", "addExpectedFailure", "addSkip") and not (flavour == "py26" and outcome == "addUnexpectedSuccess"):
                delivered = text_of(ev[2])
                for txt in detail_texts(details):
                    if outcome == "addSkip" and "reason" in details and txt != details["reason"].as_text().strip():
                        continue  # with a 'reason' detail the reason text is the documented degradation
                    if txt not in delivered:
                        problems.append(("details-text", "%s target: %s delivered %r, which lacks the detail text %r" % (flavour, block[1][0], delivered[:200], txt)))
        elif form == "reasonarg" and block[1][0] == "addSkip":
            reason = ev[2] if flavour not in EXTENDED else (ev[2] if ev[2] is not None else text_of(ev[3]))
            if marker + "-why" not in text_of(reason):
                problems.append(("reason", "%s target: skip reason delivered as %r" % (flavour, reason)))
        elif form == "exc" and block[1][0] in ("addError", "addFailure", "addExpectedFailure"):
            payload = ev[2] if ev[2] is not None else (ev[3] if len(ev) > 3 else None)
            if marker + "-exc" not in text_of(payload):
                problems.append(("exc_info", "%s target: %s delivered %r without the exception" % (flavour, block[1][0], payload)))
    for bracket in ("startTestRun", "stopTestRun"):
        # (one run was started and stopped - if at all; stop() and done() are no further runs)
        nb = sum(1 for e in log if e[0] == bracket)
        if nb > (1 if with_run_ops else 0):
            problems.append(("run-bracket", "%s target saw %s %d times for %s" % (flavour, bracket, nb, "one run" if with_run_ops else "no run at all")))
    if idx != len(proj):
        problems.append(("extra", "%s target saw extra test events %r" % (flavour, [p[0] for p in proj[idx:]])))
    # Tagger: its tags arrive inside each test (tag-aware targets only)
    if tagger_tags and flavour in EXTENDED and hasattr(target, "current_tags"):
        names = [e[0] for e in log]
        inside = False
        seen_in_test = []
        got_tag = True
        for e in log:
            if e[0] == "startTest":
                inside = True
                got_tag = False
            elif e[0] == "tags" and inside and "tg" in e[1]:
                got_tag = True
            elif e[0] in rec.OUTCOMES and inside:
                if not got_tag:
                    problems.append(("tagger", "Tagger's tags had not reached the %s target when %s was delivered" % (flavour, e[0])))
            elif e[0] == "stopTest":
                inside = False
            elif e[0] == "tags" and not inside and "tg" in e[1]:
                problems.append(("tagger", "Tagger's tags reached the %s target outside a test" % flavour))
    return problems


STATUS_WORD = {"addSuccess": ("success",), "addFailure": ("failure",), "addError": ("error",), "addSkip": ("skip",), "addExpectedFailure": ("xfail",), "addUnexpectedSuccess": ("success", "uxsuccess", "failure")}


def check_tbtr(sink, reported, tagger_tags, with_run_ops):
    problems = []
    calls = sink.calls
    if len(calls) != len(reported):
        problems.append(("tbtr", "%d callbacks for %d tests" % (len(calls), len(reported))))
        return problems
    for call, (t, outcome, form, marker, details, n) in zip(calls, reported):
        if call["test"] is not t or call["status"] not in STATUS_WORD[outcome]:
            problems.append(("tbtr", "callback %r/%r for test #%d %s" % (call["test"], call["status"], n, outcome)))
        if call["start_time"] != ts(2 * n + 1) or call["stop_time"] != stop_ts(n):
            problems.append(("tbtr-times", "callback times %r..%r for test #%d, reported %r..%r" % (call["start_time"], call["stop_time"], n, ts(2 * n + 1), stop_ts(n))))
        want_tags = {"in%d" % n} | set(tagger_tags) | ({"run"} if with_run_ops else set())
        if set(call["tags"]) != want_tags:
            problems.append(("tbtr-tags", "callback tags %r for test #%d, expected %r" % (sorted(call["tags"]), n, sorted(want_tags))))
        got = call["details"]
        if details is not None:
            if got is None or any(k not in got or b"".join(got[k].iter_bytes()) != b"".join(details[k].iter_bytes()) for k in details):
                problems.append(("tbtr-details", "callback details %r for test #%d" % (got, n)))
        elif form == "exc":
            if not got or marker + "-exc" not in text_of(got):
                problems.append(("tbtr-details", "callback details %r lack the exception of test #%d" % (got, n)))
        elif form == "reasonarg":
            if not got or marker + "-why" not in text_of(got):
                problems.append(("tbtr-details", "callback details %r lack the skip reason of test #%d" % (got, n)))
        elif form == "none":
            if got:
                problems.append(("tbtr-details", "callback for test #%d (reported without details) carries details %r" % (n, sorted(got))))
    return problems


def histories(tier):
    single = [(tk, o, f) for tk in TEST_KINDS for (o, f) in VARIANTS]
    out = [[]] + [[v] for v in single]
    if tier == "quick":
        second = [(tk, o, f) for tk in TEST_KINDS for (o, f) in VARIANTS if f in ("none", "exc", "reasonarg", "several")]
        first = [(tk, o, f) for tk in ("case",) for (o, f) in VARIANTS if f in ("none", "exc", "reasonarg", "text")]
        out += [[a, b] for a in first for b in second]
    else:
        out += [[a, b] for a in single for b in single]
        small = [("case", "addSuccess", "none"), ("placeholder", "addFailure", "exc"), ("case", "addSkip", "reason"), ("placeholder", "addUnexpectedSuccess", "none"), ("case", "addExpectedFailure", "several"), ("case", "addError", "text")]
        out += [[a, b, c] for a in small for b in small for c in small]
    return out


NSHARDS = 64


def shards(tier):
    return list(range(NSHARDS))


def run_shard(shard, tier, seed):
    res = ShardResult()
    stacks = all_stacks(2 if tier == "quick" else 3)
    hs = histories(tier)
    work = [(s, h) for s in stacks for h in hs]
    for i in range(shard, len(work), NSHARDS):
        stack, h = work[i]
        for with_run_ops in (True,) if h else (True, False):
            problems = run_history(stack, h, with_run_ops)
            res.evaluations += 1
            res.transitions += 6 * len(h) + 6
        res.states += 1
        if h:
            res.distinct.add(obs_hash((stack, tuple(h))))
        for clause, msg in problems:
            fp = "C08/%s" % clause
            res.violation(fp, "%s [stack %r history %r]" % (msg, stack, h), {"stack": [stack[0], list(stack[1])], "history": [list(t) for t in h]})
    # histories without the run-level calls (old-style clients)
    res.traces_validated = res.evaluations
    res.add_sample({"stack": ["py26", ["etod", "tagger"]], "history": [["placeholder", "addSkip", "reason"], ["case", "addFailure", "exc"]]})
    res.notes["stacks"] = len(stacks)
    res.notes["histories_per_stack"] = len(hs)
    return res


def meta(tier):
    return {
        "technique": MANIFEST_INFO["technique"],
        "rule": "states = (adapter stack, history) pairs, each replayed on fresh real objects; transitions = TestResult calls issued; non-trivial = histories with >= 1 test; distinct = distinct (stack, history)",
        "bounds": {"stack_depth": 2 if tier == "quick" else 3, "tests_per_history": 2 if tier == "quick" else 3, "test_variants": len(VARIANTS) * 2, "target_flavours": list(FLAVOURS) + ["tbtr"]},
        "assumptions": MANIFEST_INFO["level_note"].split("; "),
    }


def replay(data):
    stack = (data["stack"][0], tuple(data["stack"][1]))
    h = [tuple(t) for t in data["history"]]
    p = run_history(stack, h, True)
    return (not p), "stack=%r history=%r problems=%r" % (stack, h, p)
