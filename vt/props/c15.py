"""C15 — Spinner returns the function's own result within the timeout, restores the process."""

import gc
import itertools
import signal

from twisted.internet import defer

from testtools.twistedsupport._spinner import (
    NoResultError,
    ReentryError,
    Spinner,
    StaleJunkError,
    TimeoutError,
)

from vt.explore import vreactor
from vt.explore.chooser import Chooser, explore, obs_hash
from vt.runner import ShardResult

PROPERTY = "C15"

MANIFEST_INFO = {
    "engine": "D",
    "design_ref": "DESIGN.md section 5, C15",
    "technique": "exhaustive enumeration of Spinner.run histories (function shape x firing time relative to the timeout x leftovers x signal handlers x 1-3 runs per Spinner) on the real SelectReactor under a virtual clock; tie order of simultaneous calls and the instant of an external interrupt are chooser choice points explored by stateless DFS; timeline reference model",
    "level_text": "Every 1- and 2-run history over 23 function shapes (5 signal/stop-wrapper configurations for single runs) (return/raise/Deferred firing or failing before, at, after the timeout or never/stop requested by the function/a slow callback overrunning both the timeout and a later stop request/re-entry on the same and through a second Spinner) x 5 leftover shapes x clear_junk or not (timeout 2; single runs also with timeouts 0 and 1), 2- and 3-run histories in which the Deferred of a run that ended without it fires or fails before the next run starts or half a time unit into it, and every 3-run history over a reduced alphabet, is executed on one Spinner (on the virtual-time SelectReactor; result shapes x 0-4 leftover calls x selectables also on a task.Clock-based reactor) with every tie order and every interrupt instant (<=1 per run); result, exception type, junk accounting, reactor cleanliness, reactor.stop identity and the three signal handlers are checked against the model after every run.",
    "level_note": "The real reactor code runs on a virtual clock (seconds()/doIteration() overridden): the installed wall-clock global reactor is not used because the relative order of 'Deferred fires' and 'timeout fires' could not be owned there. Interrupts are delivered between reactor iterations (every distinct instant), not between two calls due at the same instant.",
}

TIMEOUT = 2.0
_TIMEOUT = [TIMEOUT]  # the timeout of the scenario being executed


class FnError(Exception):
    pass


def _h_callable(signum, frame):
    pass


SIGNAL_CONFIGS = {
    "default": {"SIGINT": signal.default_int_handler, "SIGTERM": signal.SIG_DFL, "SIGCHLD": signal.SIG_DFL},
    "ignore": {"SIGINT": signal.SIG_IGN, "SIGTERM": signal.SIG_IGN, "SIGCHLD": signal.SIG_IGN},
    "callable": {"SIGINT": _h_callable, "SIGTERM": _h_callable, "SIGCHLD": _h_callable},
    "mixed": {"SIGINT": signal.default_int_handler, "SIGTERM": _h_callable, "SIGCHLD": signal.SIG_IGN},
    # as "default", and the application has already replaced reactor.stop on the reactor object
    "stopwrap": {"SIGINT": signal.default_int_handler, "SIGTERM": signal.SIG_DFL, "SIGCHLD": signal.SIG_DFL},
    # as "default" for the first run; the application then installs other handlers ("callable")
    # before it runs the same Spinner again
    "switch": {"SIGINT": signal.default_int_handler, "SIGTERM": signal.SIG_DFL, "SIGCHLD": signal.SIG_DFL},
}

KINDS = (
    [("ret",), ("raise",), ("raise_base",), ("never",), ("reenter",), ("reenter_survived",)]
    + [("fire", d) for d in (0, 1, 2, 3)]
    + [("fail", d) for d in (0, 1, 2, 3)]
    + [("stop", d) for d in (1, 2, 3)]
    + [("firestop", 1), ("failstop", 1), ("busy_stop",), ("crash", 1), ("fire_cancelall", 1), ("stopfire", 1), ("stopfail", 1)]
)
EXTRAS = ("none", "junk_before", "junk_after", "selectable", "junk_after+selectable")
SMALL_KINDS = [("ret",), ("fire", 1), ("fail", 1), ("fire", 3), ("stop", 1)]
SMALL_EXTRAS = ("none", "junk_after")


class Selectable:
    def fileno(self):
        return -1

    def logPrefix(self):
        return "vt"

    def connectionLost(self, reason):
        pass

    def doRead(self):
        pass


class RunRecord:
    pass


def make_function(reactor, spinner, spec, rec, run_index, timeout=None):
    TIMEOUT = _TIMEOUT[0]
    kind = spec[0]
    extra = spec[1]
    rec.calls = []
    rec.selectables = []
    rec.called = False
    rec.extra_fired = []

    def fn():
        rec.called = True
        rec.start = reactor.rel()
        if "junk_before" in extra:
            rec.calls.append(reactor.callLater(0.5, rec.extra_fired.append, "before"))
        if "junk_after" in extra:
            rec.calls.append(reactor.callLater(5.0, rec.extra_fired.append, "after"))
        if "selectable" in extra:
            s = Selectable()
            rec.selectables.append(s)
            reactor.addReader(s)
        k = kind[0]
        if k == "ret":
            return ("value", run_index)
        if k == "fire_cancelall":
            # the function's Deferred fires from a delayed call that first cancels whatever else is
            # pending in the reactor (a "stop all timers" helper of the code under test)
            d = rec.deferred = defer.Deferred()

            def cancel_all_then_fire():
                for c in reactor.getDelayedCalls():
                    if c.active():
                        c.cancel()
                d.callback(("value", run_index))

            rec.calls.append(reactor.callLater(kind[1], cancel_all_then_fire))
            return d
        if k == "raise":
            raise FnError("run%d" % run_index)
        if k == "raise_base":
            raise SystemExit("run%d" % run_index)  # (not an Exception: it still ends the run, and the run still cleans up)
        if k == "never":
            rec.deferred = defer.Deferred()
            return rec.deferred
        if k == "reenter":
            return spinner.run(TIMEOUT, lambda: None)
        if k == "reenter_survived":
            # re-entrant use is refused every time, also after a refusal was caught - and also when
            # it comes through a second Spinner object made for the same (already spinning) reactor
            rec.reenter = []
            for attempt in range(3):
                try:
                    (spinner if attempt != 1 else type(spinner)(reactor)).run(TIMEOUT, lambda: "inner")
                    rec.reenter.append("ran")
                except ReentryError:
                    rec.reenter.append("refused")
                except BaseException as e:
                    rec.reenter.append("raised %s" % type(e).__name__)
            return ("value", run_index)
        if k == "fire":
            if kind[1] == 0:
                return defer.succeed(("value", run_index))
            d = rec.deferred = defer.Deferred()
            rec.calls.append(reactor.callLater(kind[1], d.callback, ("value", run_index)))
            return d
        if k == "fail":
            if kind[1] == 0:
                return defer.fail(FnError("run%d" % run_index))
            d = rec.deferred = defer.Deferred()
            rec.calls.append(reactor.callLater(kind[1], d.errback, FnError("run%d" % run_index)))
            return d
        if k in ("stopfire", "stopfail"):
            # one delayed call asks the reactor to stop and THEN delivers the result: the stop came first
            d = rec.deferred = defer.Deferred()

            def stop_then_deliver():
                reactor.stop()
                if k == "stopfire":
                    d.callback(("value", run_index))
                else:
                    d.errback(FnError("run%d" % run_index))

            rec.calls.append(reactor.callLater(kind[1], stop_then_deliver))
            return d
        if k in ("firestop", "failstop"):
            # one delayed call delivers the result and THEN asks the reactor to stop: the result is in
            d = rec.deferred = defer.Deferred()

            def deliver_then_stop():
                if k == "firestop":
                    d.callback(("value", run_index))
                else:
                    d.errback(FnError("run%d" % run_index))
                reactor.stop()

            rec.calls.append(reactor.callLater(kind[1], deliver_then_stop))
            return d
        if k == "busy_stop":
            # a slow synchronous callback keeps the reactor busy past the timeout AND past a stop
            # request due after it: both are overdue when the reactor gets control back and run in
            # due-time order in one pass - the timeout elapsed first
            def busy():
                reactor._vnow += TIMEOUT + 1.0

            rec.calls.append(reactor.callLater(0, busy))
            rec.calls.append(reactor.callLater(TIMEOUT + 0.5, reactor.stop))
            rec.deferred = defer.Deferred()
            return rec.deferred
        if k == "crash":
            # the reactor is stopped behind the Spinner's back: reactor.crash() (or a reactor.stop
            # looked up before run() replaced it)
            rec.calls.append(reactor.callLater(kind[1], reactor.crash))
            rec.deferred = defer.Deferred()
            return rec.deferred
        if k == "stop":
            # the function itself asks the reactor to stop (as a signal handler would)
            rec.calls.append(reactor.callLater(kind[1], reactor.stop))
            rec.deferred = defer.Deferred()
            return rec.deferred
        raise AssertionError(kind)

    return fn


def _with_late_firing(reactor, fn, during):
    late, d, n = during

    def fn2():
        if late == "cb@":
            reactor.callLater(0.5, d.callback, ("late", n))
        else:
            d.addErrback(lambda f: None)
            reactor.callLater(0.5, d.errback, FnError("late%d" % n))
        return fn()

    return fn2


def model_outcomes(spec, run_index, interrupt_at):
    """Set of acceptable observations for one run on a clean spinner."""
    TIMEOUT = _TIMEOUT[0]
    kind = spec[0]
    k = kind[0]
    val = ("value", ("value", run_index))
    err = ("raised", "FnError", "run%d" % run_index)
    events = []  # (time, order-class, outcome); order-class 1 = between instants
    if k in ("ret", "reenter_survived"):
        return {val}
    if k == "raise":
        return {err}
    if k == "raise_base":
        return {("raised", "SystemExit", None)}
    if k == "reenter":
        return {("raised", "ReentryError", None)}
    if k in ("firestop", "fire_cancelall"):
        events.append(((kind[1], 0), val))
    if k == "failstop":
        events.append(((kind[1], 0), err))
    if k == "fire":
        if kind[1] == 0:
            return {val}
        events.append(((kind[1], 0), val))
    if k == "fail":
        if kind[1] == 0:
            return {err}
        events.append(((kind[1], 0), err))
    if k in ("stop", "crash", "stopfire", "stopfail"):
        events.append(((kind[1], 0), ("raised", "NoResultError", None)))
        if k in ("stopfire", "stopfail") and kind[1] == TIMEOUT:
            # (due at the very instant of the timeout: when the timeout's call runs first, the run is
            # over - no longer spinning - by the time the stop request and the result arrive in that
            # same reactor pass, and the result is the function's own)
            events.append(((kind[1], 0), val if k == "stopfire" else err))
    events.append(((TIMEOUT, 0), ("raised", "TimeoutError", None)))
    if k == "busy_stop" and interrupt_at is not None:
        # (the clock is no guide to what came first once a callback has overrun the timeout)
        return {("raised", "TimeoutError", None), ("raised", "NoResultError", None)}
    if interrupt_at is not None:
        events.append(((interrupt_at, 1), ("raised", "NoResultError", None)))
    first = min(t for t, _ in events)
    return {o for t, o in events if t == first}


def observe(fn):
    try:
        return ("value", fn())
    except BaseException as e:
        if isinstance(e, FnError):
            return ("raised", "FnError", str(e))
        return ("raised", type(e).__name__, None)


def execute(scenario, chooser):
    """scenario = (signal config name, [(kind, extra, clear_before)], ...)"""
    sigcfg, runs = scenario[:2]
    TIMEOUT = _TIMEOUT[0] = scenario[2] if len(scenario) > 2 else 2.0
    gc.disable()
    reactor = vreactor.get_reactor()
    problems = []
    leftover = reactor.dirty()
    if leftover:
        reactor.scrub()
    saved = {}
    for name, h in SIGNAL_CONFIGS[sigcfg].items():
        saved[name] = signal.getsignal(getattr(signal, name))
        signal.signal(getattr(signal, name), h)
    real_stop = reactor.stop
    obs = []
    try:
        spinner = Spinner(reactor)
        model_junk_pending = False
        prev = None
        for idx, run in enumerate(runs):
            kind, extra, clear_before = run[:3]
            late = run[3] if len(run) > 3 else None
            spec = (kind, extra)
            during = None
            prestop = late == "prestop"
            if prestop:
                # the reactor is asked to stop during its start-up, ahead of the function
                reactor.callWhenRunning(lambda: reactor.stop())
                late = None
            if late in ("cb@", "eb@") and prev is not None and getattr(prev, "deferred", None) is not None and not prev.deferred.called:
                # the previous run's Deferred fires after all DURING this run (half a time unit in)
                during = (late, prev.deferred, idx - 1)
            elif late and prev is not None and getattr(prev, "deferred", None) is not None and not prev.deferred.called:
                # the previous run's Deferred fires after all, while no run is in progress
                if late == "cb":
                    prev.deferred.callback(("late", idx - 1))
                else:
                    prev.deferred.addErrback(lambda f: None)  # (somebody is still looking after it)
                    prev.deferred.errback(FnError("late%d" % (idx - 1)))
            if clear_before:
                spinner.clear_junk()
                model_junk_pending = False
            rec = RunRecord()
            if sigcfg == "switch" and idx == 1:
                for name, h in SIGNAL_CONFIGS["callable"].items():
                    signal.signal(getattr(signal, name), h)
            if sigcfg == "stopwrap":
                class_stop = type(reactor).stop

                def app_stop(*a, **kw):
                    return class_stop(reactor, *a, **kw)

                reactor.stop = app_stop
                real_stop = app_stop
            fn = make_function(reactor, spinner, spec, rec, idx)
            if spec[0] == ("never",):
                # (not every callable is a function with a name: a functools.partial has neither
                # __name__ nor __qualname__)
                import functools

                fn = functools.partial(fn)
            if during is not None:
                fn = _with_late_firing(reactor, fn, during)
            prev = rec
            reactor.arm(chooser, max_interrupts=1, ties=True)
            before_calls = list(reactor.getDelayedCalls())
            if spec[0] == ("ret",) and spec[1] == "none":
                # (run() passes further arguments on to the function, whatever they are called)
                o = observe(lambda: spinner.run(TIMEOUT, lambda *a, **kw: fn() if (a, kw) == ((1,), {"f": 2, "d": 3}) else ("arguments", a, kw), 1, f=2, d=3))
            else:
                o = observe(lambda: spinner.run(TIMEOUT, fn))
            if reactor.blocked_forever:
                problems.append(("hang", "run %d %r: the reactor was left spinning with %s" % (idx, spec, reactor.blocked_forever)))
            interrupt_at = None
            for e in reactor.log:
                if e[0] == "SIGINT":
                    interrupt_at = e[1]
            reactor.disarm()
            obs.append(o)
            # ---- oracle for this run
            where = "run %d %r" % (idx, spec)
            if model_junk_pending is None and o == ("raised", "StaleJunkError", None) and not rec.called:
                pass
            elif model_junk_pending:
                if o != ("raised", "StaleJunkError", None):
                    problems.append(("stale-junk", "%s: junk from the previous run was not cleared but run() gave %r" % (where, o)))
                if rec.called:
                    problems.append(("stale-junk", "%s: function was called although junk was pending" % where))
            else:
                allowed = model_outcomes(spec, idx, interrupt_at)
                if prestop:
                    # whatever the function goes on to do, the stop request came first
                    allowed = {("raised", "NoResultError", None)}
                if o not in allowed:
                    clause = "result"
                    if idx > 0 and o[0] == "value" and o[1] != ("value", idx):
                        clause = "stale-result"
                    elif idx > 0 and o[0] == "raised" and o[1] == "FnError" and o[2] != "run%d" % idx:
                        clause = "stale-result"
                    problems.append((clause, "%s (interrupt at %r): run() gave %r, model allows %r" % (where, interrupt_at, o, sorted(allowed, key=repr))))
                if getattr(rec, "reenter", None) not in (None, ["refused"] * 3):
                    problems.append(("reentry", "%s: re-entrant calls inside the function were %r, expected three refusals" % (where, rec.reenter)))
                # leftovers: every call the function scheduled either ran or was cancelled and reported as junk
                junk = spinner.get_junk()
                if spec[0][0] == "fire_cancelall":
                    # what the function cancelled itself is not a leftover
                    rec.calls = [c for c in rec.calls if not (c.cancelled and not any(j is c for j in junk))]
                for c in rec.calls:
                    if not c.called and not c.cancelled:
                        problems.append(("cleanup", "%s: delayed call %r still pending after run()" % (where, c)))
                    if not c.called and not any(j is c for j in junk):
                        problems.append(("junk", "%s: leftover delayed call not reported by get_junk()" % where))
                for s in rec.selectables:
                    if not any(j is s for j in junk):
                        problems.append(("junk", "%s: leftover selectable not reported by get_junk()" % where))
                leftovers = [c for c in rec.calls if not c.called] + list(rec.selectables)
                own_result = o[0] == "value" or (o[0] == "raised" and o[1] in ("FnError", "ReentryError"))
                extra_junk = [j for j in junk if not any(j is x for x in leftovers)]
                if own_result:
                    # the function's result arrived: nothing of the Spinner's own may be left over
                    for j in extra_junk:
                        problems.append(("junk-extra", "%s: get_junk() reports %r which the function did not leave behind" % (where, j)))
                if leftovers:
                    model_junk_pending = True
                elif extra_junk and not own_result:
                    # after a timeout / interrupt the Spinner may report its own pending timeout call
                    # as junk; the statement does not say either way
                    model_junk_pending = None
            # post-conditions, whatever happened
            if reactor.running:
                problems.append(("cleanup", "%s: reactor still running" % where))
            pend = [c for c in reactor.getDelayedCalls()]
            if pend:
                problems.append(("cleanup", "%s: reactor holds delayed calls %r" % (where, pend)))
            extra_sel = [r for r in reactor.getReaders() if r is not reactor.waker] + list(reactor.getWriters())
            if extra_sel:
                problems.append(("cleanup", "%s: reactor holds selectables %r" % (where, extra_sel)))
            if reactor.stop != real_stop or (sigcfg == "stopwrap" and reactor.stop is not real_stop):
                problems.append(("restore-stop", "%s: reactor.stop is %r afterwards, was %r" % (where, reactor.stop, real_stop)))
            for name, h in SIGNAL_CONFIGS["callable" if (sigcfg == "switch" and idx >= 1) else sigcfg].items():
                now = signal.getsignal(getattr(signal, name))
                if now is not h and now != h:
                    problems.append(("restore-signals", "%s: %s handler is %r afterwards, was %r" % (where, name, now, h)))
            reactor.scrub()
    finally:
        for name, h in saved.items():
            signal.signal(getattr(signal, name), h)
        reactor.disarm()
        reactor.scrub()
        gc.enable()
    return obs, problems


def scenarios(tier):
    out = []
    specs = [(k, e) for k in KINDS for e in EXTRAS]
    sigs = list(SIGNAL_CONFIGS)
    # single runs x all signal configs
    for s in sigs:
        for k, e in specs:
            out.append((s, ((k, e, False),)))
    # all 2-run histories, with and without clear_junk in between
    for (k1, e1), (k2, e2) in itertools.product(specs, repeat=2):
        for clear in (False, True):
            out.append(("default", ((k1, e1, False), (k2, e2, clear))))
    small = [(k, e) for k in SMALL_KINDS for e in SMALL_EXTRAS]
    mid = [KINDS[0], ("fire", 1), ("fire", 2), ("fire", 3), ("fail", 0), ("fail", 1), ("stop", 1), ("never",)]
    three = [(k, e) for k in mid for e in ("none", "junk_after")] if tier == "quick" else [(k, e) for k in KINDS for e in ("none", "junk_after", "selectable")]
    # the shortest timeout: whatever the function returns synchronously still wins
    for k, e in specs:
        out.append(("default", ((k, e, False),), 0))
    for (k1, e1), (k2, e2) in itertools.product(small, repeat=2):
        out.append(("default", ((k1, e1, False), (k2, e2, True)), 0))
    for k, e in specs:
        out.append(("default", ((k, e, False),), 1.0))
    # a Deferred that did not fire during its run fires (or fails) before the next run starts
    for k1 in (("never",), ("fire", 3), ("fail", 3), ("stop", 1)):
        for k2 in KINDS:
            for late in ("cb", "eb"):
                out.append(("default", ((k1, "none", False), (k2, "none", True, late))))
                for k3 in (("stop", 1), ("ret",), ("never",)):
                    out.append(("default", ((k1, "none", False), (k2, "none", True, late), (k3, "none", True, late))))
    # the signal handlers change between two runs of one Spinner
    for k1 in (("ret",), ("never",), ("fire", 1)):
        for k2 in (("ret",), ("raise",), ("never",), ("stop", 1)):
            out.append(("switch", ((k1, "none", False), (k2, "none", True))))
    # the reactor is told to stop while it is starting up, before the function is called
    for k in KINDS:
        if k[0] in ("reenter", "reenter_survived"):
            continue
        out.append(("default", ((k, "none", False, "prestop"),)))
        out.append(("default", ((("ret",), "none", False), (k, "none", True, "prestop"))))
    # ... or fires in the middle of the next run (which is long enough to see it)
    for k1 in (("never",), ("fire", 3), ("stop", 1)):
        for k2 in (("fire", 1), ("fire", 2), ("fail", 1), ("never",), ("stop", 1), ("fire", 3)):
            for late in ("cb@", "eb@"):
                out.append(("default", ((k1, "none", False), (k2, "none", True, late))))
    for a, b, c in itertools.product(three, repeat=3):
        for c1, c2 in itertools.product((False, True), repeat=2):
            out.append(("mixed", ((a[0], a[1], False), (b[0], b[1], c1), (c[0], c[1], c2))))
    return out


NSHARDS = 64


class ClockReactor:
    """A second deterministic virtual-time reactor, built on twisted.internet.task.Clock (as
    MemoryReactorClock and most hand-made test reactors are).  Unlike the real reactor's, its
    getDelayedCalls() hands out the live list."""

    def __init__(self):
        from twisted.internet.task import Clock

        self.clock = Clock()
        self.running = False
        self._when_running = []
        self._readers = []
        self.callLater = self.clock.callLater
        self.getDelayedCalls = self.clock.getDelayedCalls
        self.seconds = self.clock.seconds

    def callWhenRunning(self, f, *a, **kw):
        self._when_running.append((f, a, kw))

    def run(self):
        self.running = True
        hooks, self._when_running = self._when_running, []
        for f, a, kw in hooks:
            f(*a, **kw)
        while self.running:
            calls = self.clock.getDelayedCalls()
            if not calls:
                raise WouldBlock("nothing left to wait for")
            self.clock.advance(max(0.0, min(c.getTime() for c in calls) - self.clock.seconds()))

    def crash(self):
        self.running = False

    def stop(self):
        self.crash()

    def iterate(self, delay=0):
        self.clock.advance(delay)

    def addReader(self, r):
        self._readers.append(r)

    def removeAll(self):
        out, self._readers = self._readers, []
        return out


class WouldBlock(Exception):
    pass


def check_clock_reactor(res):
    """Every (result shape x number of leftover delayed calls x selectables) on the Clock-based
    reactor: result, nothing pending afterwards, every leftover reported as junk."""
    import threading

    if threading.current_thread() is not threading.main_thread():
        return
    for shape in ("ret", "fire1", "fail1", "never"):
        for nleft in range(0, 5):
            for nsel in (0, 2):
                reactor = ClockReactor()
                spinner = Spinner(reactor)
                left = []
                sels = [Selectable() for _ in range(nsel)]

                def fn():
                    for i in range(nleft):
                        left.append(reactor.callLater(5.0 + i, lambda: None))
                    for s_ in sels:
                        reactor.addReader(s_)
                    if shape == "ret":
                        return "value"
                    d = defer.Deferred()
                    if shape == "fire1":
                        reactor.callLater(1.0, d.callback, "value")
                    elif shape == "fail1":
                        reactor.callLater(1.0, d.errback, FnError("boom"))
                    return d

                o = observe(lambda: spinner.run(2.0, fn))
                res.evaluations += 1
                res.traces_validated += 1
                want = {"ret": ("value", "value"), "fire1": ("value", "value"), "fail1": ("raised", "FnError", "boom"), "never": ("raised", "TimeoutError", None)}[shape]
                where = "Clock-based reactor, function shape %s leaving %d delayed call(s) and %d selectable(s)" % (shape, nleft, nsel)
                if o != want:
                    res.violation("C15/result", "%s: run() gave %r, expected %r" % (where, o, want), {"clock_reactor": [shape, nleft, nsel]})
                pending = [c for c in reactor.getDelayedCalls() if c.active()]
                if pending or reactor._readers:
                    res.violation("C15/cleanup", "%s: %d delayed call(s) still pending afterwards, %d selectable(s) still registered" % (where, len(pending), len(reactor._readers)), {"clock_reactor": [shape, nleft, nsel]})
                junk = spinner.get_junk()
                missing = [c for c in left if not any(c is j for j in junk)] + [s_ for s_ in sels if not any(s_ is j for j in junk)]
                if missing:
                    res.violation("C15/junk", "%s: %d leftover(s) not reported as junk" % (where, len(missing)), {"clock_reactor": [shape, nleft, nsel]})


def shards(tier):
    return list(range(NSHARDS))


def run_shard(shard, tier, seed):
    res = ShardResult()
    scs = scenarios(tier)
    mine = scs[shard::NSHARDS]
    if shard == 0:
        check_clock_reactor(res)
    for sc in mine:
        def run_one(ch, sc=sc):
            return execute(sc, ch)

        def check(ch, o, sc=sc):
            obs, problems = o.v
            res.evaluations += 1
            res.distinct.add(obs_hash((sc, tuple(ch.choices), obs)))
            for clause, msg in problems:
                res.violation("C15/%s" % clause, "%s [scenario %r choices %r]" % (msg, sc, ch.choices), {"scenario": _enc(sc), "choices": ch.choices})

        stats = explore(lambda ch: _W(run_one(ch)), check, 3)
        res.states += stats.choice_points + 1
        res.transitions += stats.edges + 1
        res.traces_validated += stats.executions
        res.count("scenarios", 1)
    if mine:
        res.add_sample({"scenario": _enc(mine[len(mine) // 2])})
    vreactor.discard_reactor()
    return res


class _W:
    __slots__ = ("v",)

    def __init__(self, v):
        self.v = v

    def __repr__(self):
        return ""


def _enc(sc):
    return [sc[0], [[list(r[0])] + list(r[1:]) for r in sc[1]]] + list(sc[2:])


def _dec(d):
    return (d[0], tuple((tuple(r[0]),) + tuple(r[1:]) for r in d[1])) + tuple(d[2:])


def meta(tier):
    return {
        "technique": MANIFEST_INFO["technique"],
        "rule": "scenario = (signal handler config, 1..3 (function shape, leftovers, clear_junk-before) runs on one Spinner); for each scenario all tie orders and interrupt instants (<=1 per run, <=3 deviations) are explored; every execution counts; non-trivial/distinct = distinct (scenario, choices, observations)",
        "bounds": {"timeout": [2.0, 0, 1.0], "late_firing_between_runs_or_during_the_next_run": ["callback", "errback"], "delays": [0, 1, 2, 3], "function_shapes": len(KINDS), "leftover_shapes": len(EXTRAS), "runs_per_spinner": 3, "interrupts_per_run": 1, "signal_configs": list(SIGNAL_CONFIGS)},
        "assumptions": [
            "virtual clock on the real SelectReactor code; selectables never become ready",
            "at the instant where the Deferred fires and the timeout elapses together, either result is accepted (both orders are explored)",
            "a function that synchronously returns a value and also stops the reactor is not generated",
        ],
    }


def replay(data):
    if "clock_reactor" in data:
        res = ShardResult()
        check_clock_reactor(res)
        return not res.violations, "\n".join(v["message"] for v in res.violations)
    sc = _dec(data["scenario"])
    obs, problems = execute(sc, Chooser(data["choices"]))
    return (not problems), "scenario=%r\nobservations=%r\nproblems=%r" % (sc, obs, problems)
