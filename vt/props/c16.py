"""C16 — Content is lossless and independent of chunking."""

import io
import itertools
import json
import os
import tempfile

from testtools import content as C
from testtools.content_type import ContentType
from testtools.testcase import _copy_content, gather_details
from testtools.testresult.real import _make_content_type

from vt.explore.chooser import Chooser, explore, obs_hash
from vt.runner import ShardResult

PROPERTY = "C16"

MANIFEST_INFO = {
    "engine": "E",
    "design_ref": "DESIGN.md section 5, C16",
    "technique": "bounded-exhaustive enumeration of texts x charsets x every way of cutting the encoded bytes into chunks (incl. empty chunks), of byte strings x chunk sizes x seek offsets/origins x buffer_now on an instrumented stream whose short reads are chooser choice points, of content pairs for equality, and of content types over a token alphabet for the repr/parse round trip; reference = join / bytes.decode / slicing",
    "level_text": "All texts up to length 3 (quick) / 4 (thorough) over {a, e-acute, euro sign, U+1F600, NUL, combining acute} in utf8, utf-16, latin-1 and undeclared charset with every composition of the encoded bytes (all cuts for <= 8 (12) bytes, <= 3 cuts beyond; plus unterminated UTF-7 runs and truncated sequences) and an empty chunk at every position; every byte string of length <= 6 (7) over {00, 61, ff} x every chunk size x 7 seek offsets x both origins x buffer_now (and, for a given offset, the stream position moved by someone else between iter_bytes() and the first chunk) x every pattern of <= 2 short reads; all pairs of 48 contents (8 of them instances of a Content subclass) for equality, and each of them against None, its own bytes and its content type; json_content's input changed afterwards; as_text() read again after the source grew; every content type over a token alphabet with <= 2 parameters for the MIME round trip; detail snapshots vs later source changes (incl. a Content subclass that serialises itself).",
    "level_note": "Finite scope stands in for 'all Unicode texts / all byte strings' (one representative per UTF-8 length class, NUL, a combining mark). Content-type parameter names are lower-case tokens and values contain no quote, backslash or non-ASCII characters (charset values no comma): outside this envelope the stdlib header parser legitimately normalises.",
}

CHARS = ("a", "é", "€", "\U0001F600", "\x00", "́")
CHARSETS = ("utf8", "utf-16", "latin-1", None)


def compositions(n, max_cuts):
    """All ways to cut range(n) into consecutive non-empty pieces using <= max_cuts cuts."""
    positions = range(1, n)
    for k in range(0, min(max_cuts, max(n - 1, 0)) + 1):
        for cuts in itertools.combinations(positions, k):
            yield cuts


def cut(data, cuts):
    out = []
    prev = 0
    for c in cuts:
        out.append(data[prev:c])
        prev = c
    out.append(data[prev:])
    return out


def check_text(res, tier):
    maxlen = 3 if tier == "quick" else 4
    problems = []
    for n in range(0, maxlen + 1):
        for chars in itertools.product(CHARS, repeat=n):
            text = "".join(chars)
            # text_content / json_content round trip
            tc = C.text_content(text)
            res.evaluations += 2
            if tc.as_text() != text or b"".join(tc.iter_bytes()) != text.encode("utf8"):
                problems.append(("text_content", "text_content(%r) gives %r" % (text, tc.as_text())))
            payload = {"k": [text, 1, None]}
            jc = C.json_content(payload)
            payload["k"].append("added after json_content() returned")  # (its input is what it was given)
            if json.loads(b"".join(jc.iter_bytes()).decode("utf8")) != {"k": [text, 1, None]}:
                problems.append(("json_content", "json_content round trip of %r failed" % (text,)))
            # as_text() is the decoding of what the source yields - each time it is asked
            source = [text.encode("utf8")]
            vc = C.Content(C.UTF8_TEXT, lambda: list(source))
            first = vc.as_text()
            source.append(b"+more")
            res.evaluations += 1
            if (first, vc.as_text()) != (text, text + "+more"):
                problems.append(("as_text", "a content over a growing source: as_text() gave %r, then %r after b'+more' was appended to %r" % (first, vc.as_text(), text)))
            for charset in CHARSETS:
                enc = charset or "ISO-8859-1"
                try:
                    data = text.encode(enc)
                except UnicodeEncodeError:
                    continue
                want = data.decode(enc)
                params = {"charset": charset} if charset else {}
                ct = ContentType("text", "plain", params)
                nb = len(data)
                max_cuts = nb if nb <= (8 if tier == "quick" else 12) else 3
                for cuts in compositions(nb, max_cuts):
                    chunks = cut(data, cuts)
                    variants = [chunks]
                    if len(cuts) <= 2:
                        for pos in range(len(chunks) + 1):
                            variants.append(chunks[:pos] + [b""] + chunks[pos:])
                    for v in variants:
                        c = C.Content(ct, lambda v=v: list(v))
                        res.evaluations += 1
                        res.states += 1
                        try:
                            got = c.as_text()
                            it = "".join(c.iter_text())
                        except UnicodeDecodeError as e:
                            # (valid text, merely cut inside a character: decoding it cannot fail)
                            got = it = "raised %s" % e
                        jb = b"".join(c.iter_bytes())
                        if got != want or it != want or jb != data:
                            problems.append(("chunking", "text %r charset %r chunks %r: as_text %r, expected %r" % (text, charset, v, got, want)))
                res.distinct.add(obs_hash(("t", text, charset)))
    # raw byte strings whose decoding needs the decoder's final flush (unterminated UTF-7 run) or
    # must fail like whole-string decoding does (truncated sequences)
    RAW = [
        (b"+AOk", "utf-7"), (b"a+AOk", "utf-7"), (b"+AOkgrA", "utf-7"), (b"+2D3eAA", "utf-7"),
        (b"\xc3", "utf8"), (b"a\xe2\x82", "utf8"), (b"\xf0\x9f\x98", "utf8"),
        (b"\xff\xfea", "utf-16"), (b"\xff\xfea\x00\x3d\xd8", "utf-16"),
    ]
    for data, charset in RAW:
        try:
            want = ("ok", data.decode(charset))
        except UnicodeDecodeError:
            want = ("UnicodeDecodeError",)
        ct = ContentType("text", "plain", {"charset": charset})
        for cuts in compositions(len(data), len(data)):
            chunks = cut(data, cuts)
            c = C.Content(ct, lambda v=chunks: list(v))
            res.evaluations += 1
            res.states += 1
            try:
                got = ("ok", c.as_text())
            except UnicodeDecodeError:
                got = ("UnicodeDecodeError",)
            if got != want:
                problems.append(("chunking", "bytes %r charset %r chunks %r: as_text gives %r, whole-string decoding gives %r" % (data, charset, chunks, got, want)))
        res.distinct.add(obs_hash(("raw", data, charset)))
    # two text contents decoded in lock-step (each keeps its own decoder state)
    for ta, tb in (("é€a", "\U0001F600é"), ("aé", "€")):
        for charset in ("utf8", "utf-16"):
            da, db = ta.encode(charset), tb.encode(charset)
            for cuts_a in compositions(len(da), 2):
                for cuts_b in compositions(len(db), 2):
                    ca = C.Content(ContentType("text", "plain", {"charset": charset}), lambda v=cut(da, cuts_a): list(v))
                    cb = C.Content(ContentType("text", "plain", {"charset": charset}), lambda v=cut(db, cuts_b): list(v))
                    res.evaluations += 1
                    res.states += 1
                    try:
                        ia, ib = ca.iter_text(), cb.iter_text()
                        oa, ob = [], []
                        for _ in range(40):
                            xa, xb = next(ia, None), next(ib, None)
                            if xa is None and xb is None:
                                break
                            if xa is not None:
                                oa.append(xa)
                            if xb is not None:
                                ob.append(xb)
                        got = ("".join(oa), "".join(ob))
                    except Exception as e:
                        got = "%s: %s" % (type(e).__name__, e)
                    if got != (ta, tb):
                        problems.append(("chunking-interleaved", "two %s contents %r / %r (chunks %r / %r) decoded in lock-step give %r" % (charset, ta, tb, cut(da, cuts_a), cut(db, cuts_b), got)))
    res.add_sample({"text": "aé€", "charset": "utf-16", "chunks": [repr(x) for x in cut("aé€".encode("utf-16"), (1, 3, 5))]})
    return problems


# ---------------------------------------------------------------------------


class Instrumented:
    """Byte stream that logs every seek/read and may return short reads (chooser)."""

    def __init__(self, data, chooser, log):
        self.data = data
        self.pos = 0
        self.chooser = chooser
        self.log = log
        self.nreads = 0

    def seek(self, offset, whence=0):
        self.log.append(("seek", offset, whence))
        if whence == 0:
            new = offset
        elif whence == 1:
            new = self.pos + offset
        else:
            new = len(self.data) + offset
        if new < 0:
            raise ValueError("negative seek position")
        self.pos = new
        return new

    def read(self, n=-1):
        avail = self.data[self.pos : self.pos + n] if n >= 0 else self.data[self.pos :]
        self.nreads += 1
        if len(avail) >= 2 and self.chooser is not None:
            # environment answer: a short read (at least one byte)
            if self.chooser.choose(("short-read", self.nreads), 2):
                avail = avail[: len(avail) - 1]
        self.pos += len(avail)
        self.log.append(("read", n, len(avail)))
        return avail


BYTE_ALPHABET = (b"\x00", b"a", b"\xff")


def stream_cases(tier):
    maxlen = 6 if tier == "quick" else 7
    for n in range(0, maxlen + 1):
        for bs in itertools.product(BYTE_ALPHABET, repeat=n):
            data = b"".join(bs)
            for chunk_size in range(1, n + 2):
                seeks = [(None, 0), (0, 0), (1, 0), (max(n - 1, 0), 0), (n, 0), (n + 1, 0), (0, 2), (-1, 2), (-n, 2)]
                for so, sw in dict.fromkeys(seeks):
                    if sw == 2 and -so > n:
                        continue
                    for buffer_now in (False, True):
                        yield data, chunk_size, so, sw, buffer_now
                    if so is not None and n:
                        # somebody else moves the stream between iter_bytes() and the first chunk
                        yield data, chunk_size, so, sw, "disturbed"


def expected_slice(data, so, sw):
    if so is None:
        return data
    if sw == 0:
        return data[so:]
    return data[len(data) + so :]


def run_stream_case(case, chooser):
    data, chunk_size, so, sw, buffer_now = case
    disturbed = buffer_now == "disturbed"
    if disturbed:
        buffer_now = False
    log = []
    stream = Instrumented(data, chooser, log)
    problems = []
    try:
        content = C.content_from_stream(stream, ContentType("application", "octet-stream"), chunk_size, buffer_now, so, sw)
        after_ctor = len(log)
        it = content.iter_bytes()
        if disturbed:
            # (another detail over the same stream was drained meanwhile, or a writer appended)
            stream.pos = len(data) if stream.pos != len(data) else 0
        chunks = list(it)
    except Exception as e:
        # (every generated offset is a valid position of the stream)
        return [("stream-raised", "%s: %s after stream operations %r" % (type(e).__name__, e, log))], ((), tuple(log))
    after_iter = len(log)
    want = expected_slice(data, so, sw)
    if b"".join(chunks) != want:
        problems.append(("stream-bytes", "yielded %r, expected %r" % (chunks, want)))
    for ch in chunks:
        if not ch or len(ch) > chunk_size:
            problems.append(("stream-chunks", "chunk %r violates 0 < len <= %d" % (ch, chunk_size)))
    if buffer_now:
        if after_iter != after_ctor:
            problems.append(("buffering", "buffer_now=True but the stream was touched during iter_bytes: %r" % (log[after_ctor:],)))
        if after_ctor == 0:
            problems.append(("buffering", "buffer_now=True but nothing was read in the constructor"))
    else:
        if after_ctor != 0:
            problems.append(("buffering", "buffer_now=False but the stream was touched before iter_bytes: %r" % (log[:after_ctor],)))
    return problems, (tuple(chunks), tuple(log))


def check_streams(res, tier, shard, nshards):
    problems = []
    i = -1
    for case in stream_cases(tier):
        i += 1
        if i % nshards != shard:
            continue

        def check(ch, o, case=case):
            p, obs = o.v
            res.evaluations += 1
            res.distinct.add(obs_hash((case, obs)))
            for clause, msg in p:
                res.violation("C16/%s" % clause, "%s [data=%r chunk_size=%d seek=(%r,%r) buffer_now=%r short-reads=%r]" % ((msg,) + case + (ch.choices,)), {"stream_case": [case[0].hex(), case[1], case[2], case[3], case[4]], "choices": ch.choices})

        st = explore(lambda ch, case=case: _W(run_stream_case(case, ch)), check, 2)
        res.states += st.choice_points + 1
        res.transitions += st.edges + 1
        res.traces_validated += st.executions
    return problems


class _W:
    __slots__ = ("v",)

    def __init__(self, v):
        self.v = v

    def __repr__(self):
        return ""


def check_files(res):
    problems = []
    d = tempfile.mkdtemp(prefix="vt-c16-")
    path = os.path.join(d, "f")
    try:
        for data in (b"", b"a", b"a\xff\x00b", b"0123456789"):
            for chunk_size in (1, 3, 64):
                for so, sw in ((None, 0), (0, 0), (2, 0), (0, 2), (-1, 2), (-len(data), 2), (50, 0)):
                    if sw == 2 and -so > len(data):
                        continue
                    for buffer_now in (False, True):
                        with open(path, "wb") as f:
                            f.write(data)
                        c = C.content_from_file(path, None, chunk_size, buffer_now, so, sw)
                        first = list(c.iter_bytes())
                        # change the file: a lazy content re-reads, a buffered one does not
                        with open(path, "wb") as f:
                            f.write(data + b"ZZ")
                        second = list(c.iter_bytes())
                        res.evaluations += 2
                        res.states += 1
                        want1 = expected_slice(data, so, sw)
                        want2 = want1 if buffer_now else expected_slice(data + b"ZZ", so, sw)
                        if b"".join(first) != want1 or any(not x or len(x) > chunk_size for x in first):
                            problems.append(("file-bytes", "content_from_file(%r, chunk=%d, seek=%r/%r, buffer_now=%r) yielded %r" % (data, chunk_size, so, sw, buffer_now, first)))
                        if b"".join(second) != want2:
                            problems.append(("file-reread", "second iteration after the file changed yielded %r, expected %r (buffer_now=%r)" % (second, want2, buffer_now)))
        # snapshots made when details are gathered
        src = [b"one"]
        volatile = C.Content(ContentType("text", "plain", {"charset": "utf8"}), lambda: list(src))
        copy = _copy_content(volatile)
        target = {"x": C.text_content("old")}
        gather_details({"x": volatile, "y": volatile}, target)
        # a source whose callback hands out the very list it keeps appending to
        kept = [b"k1"]
        keeper = C.Content(ContentType("text", "plain", {"charset": "utf8"}), lambda: kept)
        kcopy = _copy_content(keeper)
        ktarget = {}
        gather_details({"k": keeper}, ktarget)
        kept.append(b"k2")
        kept[0] = b"K1"
        res.evaluations += 2
        if b"".join(kcopy.iter_bytes()) != b"k1" or b"".join(ktarget["k"].iter_bytes()) != b"k1":
            problems.append(("snapshot", "copies of a content whose source list was later mutated read %r / %r, expected b'k1'" % (b"".join(kcopy.iter_bytes()), b"".join(ktarget["k"].iter_bytes()))))
        # a Content subclass that serialises itself (overrides iter_bytes instead of handing a
        # callback to Content.__init__): its copy is a snapshot like any other
        live = [b"s1"]

        class SelfSerialising(C.Content):
            def __init__(self):
                C.Content.__init__(self, ContentType("text", "plain", {"charset": "utf8"}), lambda: [b"unused"])

            def iter_bytes(self):
                return iter(list(live))

        starget = {}
        gather_details({"s": SelfSerialising()}, starget)
        live.append(b"s2")
        res.evaluations += 1
        if b"".join(starget["s"].iter_bytes()) != b"s1":
            problems.append(("snapshot", "the gathered copy of a self-serialising Content subclass reads %r after its source grew, expected b's1'" % (b"".join(starget["s"].iter_bytes()),)))
        with open(path, "wb") as f:
            f.write(b"file-v1")
        fc = C.content_from_file(path, buffer_now=False)
        gather_details({"f": fc}, target)
        src[:] = [b"two"]
        with open(path, "wb") as f:
            f.write(b"file-v2")
        res.evaluations += 4
        got = {k: b"".join(v.iter_bytes()) for k, v in target.items()}
        if b"".join(copy.iter_bytes()) != b"one" or copy.content_type != volatile.content_type:
            problems.append(("snapshot", "_copy_content copy changed with its source: %r" % (b"".join(copy.iter_bytes()),)))
        if got != {"x": b"old", "x-1": b"one", "y": b"one", "f": b"file-v1"}:
            problems.append(("snapshot", "gathered details after the sources changed: %r" % (got,)))
    finally:
        try:
            os.remove(path)
        except OSError:
            pass
        os.rmdir(d)
    return problems


def check_equality(res):
    problems = []
    types = [ContentType("text", "plain", {"charset": "utf8"}), ContentType("text", "plain"), ContentType("application", "octet-stream"), ContentType("text", "plain", {"charset": "utf8", "k": "v"})]
    payloads = [[], [b""], [b"a"], [b"a", b""], [b"", b"a"], [b"ab"], [b"a", b"b"], [b"b", b"a"], [b"\xff"], [b"a", b"b", b""]]
    items = [(t, p, C.Content(t, lambda p=p: list(p))) for t in types for p in payloads]

    class LabelledContent(C.Content):
        """A subclass (as TracebackContent and StackLinesContent are): still type and bytes."""

    items += [(t, p, LabelledContent(t, lambda p=p: list(p))) for t in types[:2] for p in payloads[2:6]]
    for (t1, p1, c1), (t2, p2, c2) in itertools.product(items, repeat=2):
        want = (repr(t1) == repr(t2) and t1.parameters == t2.parameters) and b"".join(p1) == b"".join(p2)
        got = c1 == c2
        res.evaluations += 1
        res.states += 1
        if bool(got) != want:
            problems.append(("equality", "Content(%r, %r) == Content(%r, %r) is %r" % (t1, p1, t2, p2, got)))
    # things that are not contents at all (the value a details.get() gave, the bytes themselves):
    # never equal, from either side
    for t, p, c in items:
        for other in (None, b"".join(p), t):
            res.evaluations += 1
            try:
                got = (c == other, other == c, c != other)
            except Exception as e:
                problems.append(("equality", "comparing Content(%r, %r) with %r raised %s: %s" % (t, p, other, type(e).__name__, e)))
                continue
            if got != (False, False, True):
                problems.append(("equality", "Content(%r, %r) ==/!= %r gave %r" % (t, p, other, got)))
    return problems


TOKENS_TYPE = ("text", "application", "x-t.a+b")
TOKENS_SUB = ("plain", "x-traceback", "vnd.a+json", "octet-stream")
PNAMES = ("charset", "language", "k", "x-p")
PVALUES = ("a", "utf8", "UTF-8", "a b", "a;b", "a=b", "a/b", "it's", "a,b", "", "x" * 40, " ", "> ", "\t", " a", "a\\b", "\\")


def check_content_types(res, tier):
    problems = []
    param_sets = [{}]
    for n, v in itertools.product(PNAMES, PVALUES):
        if n == "charset" and "," in v:
            continue
        param_sets.append({n: v})
    pair_values = PVALUES if tier != "quick" else ("a", "a b", "a;b", "", "it's")
    for (n1, n2) in itertools.combinations(PNAMES, 2):
        for v1, v2 in itertools.product(pair_values, repeat=2):
            if (n1 == "charset" and "," in v1) or (n2 == "charset" and "," in v2):
                continue
            param_sets.append({n1: v1, n2: v2})
    for t, s in itertools.product(TOKENS_TYPE, TOKENS_SUB):
        for params in param_sets:
            ct = ContentType(t, s, dict(params))
            res.evaluations += 1
            res.states += 1
            try:
                back = _make_content_type(repr(ct))
            except Exception as e:
                problems.append(("content-type", "%r does not parse back: %s: %s" % (ct, type(e).__name__, e)))
                continue
            if back != ct:
                problems.append(("content-type", "%r parsed back as %r (%r)" % (ct, back, back.parameters)))
            res.distinct.add(obs_hash(("ct", t, s, tuple(sorted(params.items())))))
    return problems


NSTREAM = 48


def shards(tier):
    return [("text",), ("misc",)] + [("stream", i) for i in range(NSTREAM)]


def run_shard(shard, tier, seed):
    res = ShardResult()
    problems = []
    if shard[0] == "text":
        problems = check_text(res, tier)
    elif shard[0] == "misc":
        problems = check_files(res) + check_equality(res) + check_content_types(res, tier)
        res.add_sample({"content_type": 'x-t.a+b/vnd.a+json; k="a;b"; x-p="it\'s"'})
    else:
        problems = check_streams(res, tier, shard[1], NSTREAM)
        if shard[1] == 0:
            res.add_sample({"data": "610061ff", "chunk_size": 2, "seek": [1, 0], "buffer_now": False, "short_reads": [1, 0, 1]})
    res.transitions += res.evaluations
    res.traces_validated += res.evaluations
    seen = set()
    for clause, msg in problems:
        if clause in seen and len(seen) > 20:
            continue
        seen.add(clause)
        res.violation("C16/%s" % clause, msg, {"part": shard[0], "note": msg})
    return res


def meta(tier):
    return {
        "technique": MANIFEST_INFO["technique"],
        "rule": "complete enumeration inside the stated bounds; evaluations = API calls compared with the reference; states = distinct inputs; non-trivial/distinct = distinct (text, charset) inputs, (stream case, short-read pattern, observation) and content types",
        "bounds": {"text_len": 3 if tier == "quick" else 4, "chars": [repr(c) for c in CHARS], "charsets": [str(c) for c in CHARSETS], "bytes_len": 6 if tier == "quick" else 7, "short_reads": 2},
        "assumptions": MANIFEST_INFO["level_note"].split(". ")[1:],
    }


def replay(data):
    if "stream_case" in data:
        sc = data["stream_case"]
        case = (bytes.fromhex(sc[0]), sc[1], sc[2], sc[3], sc[4])
        p, obs = run_stream_case(case, Chooser(data["choices"]))
        return (not p), "case=%r observation=%r problems=%r" % (case, obs, p)
    res = ShardResult()
    part = data.get("part")
    if part == "text":
        p = check_text(res, "quick")
    else:
        p = check_files(res) + check_equality(res) + check_content_types(res, "thorough")
    return (not p), "problems=%r" % (p[:5],)
