"""C18 — routing picks exactly one destination; route prefixes push and pop inversely."""

import datetime
import itertools
import queue

from testtools.testresult.real import StreamResultRouter, StreamToQueue

from vt import recorders as rec
from vt.explore.bfs import bfs
from vt.explore.chooser import obs_hash
from vt.runner import ShardResult
from vt.snapshot import snapshot

PROPERTY = "C18"

MANIFEST_INFO = {
    "engine": "B",
    "design_ref": "DESIGN.md section 5, C18",
    "technique": "explicit-state BFS over add_rule/startTestRun/stopTestRun/status histories on a real StreamResultRouter with recording sinks, routing-precedence reference model per step; exhaustive enumeration of StreamToQueue/consuming-router nestings",
    "level_text": "All histories of <= 6 (quick) / 8 (thorough) operations over 12 rule kinds with a new sink each a refused add_rule (two-segment prefix) and 12 that add a further rule (with or without do_start_stop_run) for the fallback or the most recent sink (<=3 unambiguous rules), run start/stop and 24 status events (8 route codes of 0..4 segments x 3 test ids) are executed on a fresh real router per fallback configuration; after every operation every sink's log is compared with the model (exactly one destination, fields unchanged, exactly one leading segment consumed, start/stop delivered once to registered sinks only). The push/pop inverse is enumerated for every nesting of 1..3 StreamToQueue codes over 4 original route codes.",
    "level_note": "Events are passed by keyword or positionally; a later rule for the same prefix or id replaces the earlier one (one rule per key).",
}

T0 = datetime.datetime(2020, 1, 1, tzinfo=datetime.timezone.utc)
ROUTE_CODES = (None, "0", "1", "0/1", "1/0/2", "0/1/2/3", "2", "00/1")  # ("00": a first segment that merely begins with a registered prefix)
TEST_IDS = ("a", "b", None)
STATUS_OPS = tuple(("status", rc, tid) for rc in ROUTE_CODES for tid in TEST_IDS)
RULE_OPS = tuple(
    [("rule_prefix", p, c, d) for p in ("0", "1") for c in (False, True) for d in (False, True)]
    + [("rule_id", t, d) for t in ("a", None) for d in (False, True)]
)
# a further rule (default do_start_stop_run) for a sink that is known already: the fallback ("F") or
# the sink of the most recent rule ("last")
SAME_OPS = tuple([("rule_prefix_same", p, t, d) for p in ("0", "1") for t in ("F", "last") for d in (False, True)] + [("rule_id_same", "a", t, d) for t in ("F", "last") for d in (False, True)])
FALLBACKS = ("none", "fallback+startstop", "fallback-nostartstop", "falsyfallback+startstop")


class EqStream(rec.Stream):
    """Rule sinks compare equal to one another (value-like sinks: dataclasses, say) - which of them
    is started and stopped must go by identity."""

    def __eq__(self, other):
        return isinstance(other, EqStream)

    def __hash__(self):
        return 7


class FalsyStream(rec.Stream):
    """A recording sink that is falsy while it is empty (it has a length: a collecting sink)."""

    def __len__(self):
        return len(self.log)



def payload(rc, tid):
    return dict(
        test_id=tid,
        test_status="fail",
        test_tags={"t"},
        runnable=False,
        file_name="f",
        file_bytes=b"x",
        eof=True,
        mime_type="text/plain",
        route_code=rc,
        timestamp=T0,
    )


class Model:
    def __init__(self, fallback):
        self.prefixes = {}  # prefix -> (sink index, consume)
        self.ids = {}  # test id -> sink index
        self.registered = []  # sink indices receiving start/stop; "F" = fallback
        self.fallback = fallback != "none"
        if fallback in ("fallback+startstop", "falsyfallback+startstop"):
            self.registered.append("F")
        self.in_run = False
        self.nrules = 0
        self.nsinks = 0
        self.nbad = 0

    def key(self):
        return (tuple(sorted(self.prefixes.items())), tuple(sorted(self.ids.items(), key=repr)), tuple(self.registered), self.in_run, self.nsinks, self.nbad)

    def route(self, rc, tid):
        """-> (destination, delivered route code) or None when the event has no destination."""
        if rc is not None:
            first = rc.split("/")[0]
            if first in self.prefixes:
                sink, consume = self.prefixes[first]
                if consume:
                    rest = rc[len(first) + 1 :]
                    return sink, (rest if rest else None)
                return sink, rc
        if tid in self.ids:
            return self.ids[tid], rc
        if self.fallback:
            return "F", rc
        return None


class Impl:
    def __init__(self, fallback):
        self.fb = (FalsyStream() if fallback.startswith("falsy") else rec.Stream()) if fallback != "none" else None
        if fallback == "none":
            self.router = StreamResultRouter()
        else:
            self.router = StreamResultRouter(self.fb, do_start_stop_run=fallback.endswith("+startstop"))
        self.sinks = []
        self.rejected = []  # sinks of add_rule calls that the router refused

    def logs(self):
        d = {i: s.log for i, s in enumerate(self.sinks)}
        for i, s in enumerate(self.rejected):
            d[("rejected", i)] = s.log
        if self.fb is not None:
            d["F"] = self.fb.log
        return d

    def clear(self):
        for log in self.logs().values():
            del log[:]


class System:
    def __init__(self, fallback, max_rules):
        self.fallback = fallback
        self.max_rules = max_rules

    def fresh(self):
        return Impl(self.fallback), Model(self.fallback)

    def ops(self, m):
        out = []
        out.append(("stopTestRun",) if m.in_run else ("startTestRun",))
        if m.nrules < self.max_rules:
            for op in RULE_OPS:
                # (a second rule for a prefix or id REPLACES the first: the router keeps one rule
                # per key, so there is nothing ambiguous about it)
                out.append(op)
            for op in SAME_OPS:
                if op[0] == "rule_prefix_same" and op[1] in m.prefixes:
                    continue
                if op[0] == "rule_id_same" and op[1] in m.ids:
                    continue
                if (op[2] == "F" and not m.fallback) or (op[2] == "last" and not m.nsinks):
                    continue
                out.append(op)
            if m.nbad < 1:
                out.append(("rule_bad", True))
                out.append(("rule_bad", False))
        out.extend(STATUS_OPS)
        return out

    def apply(self, impl, m, op, check):
        problems = []
        expected = {k: [] for k in impl.logs()}
        raised = None
        name = op[0]
        must_raise = False
        try:
            if name == "startTestRun":
                for s in m.registered:
                    expected[s].append(("startTestRun",))
                m.in_run = True
                impl.router.startTestRun()
            elif name == "stopTestRun":
                for s in m.registered:
                    expected[s].append(("stopTestRun",))
                m.in_run = False
                impl.router.stopTestRun()
            elif name == "rule_bad":
                # a route prefix of two segments is refused (TypeError): the call must have no effect,
                # now or at any later startTestRun/stopTestRun
                sink = rec.Stream()
                impl.rejected.append(sink)
                expected[("rejected", len(impl.rejected) - 1)] = []
                m.nbad += 1
                must_raise = True
                impl.router.add_rule(sink, "route_code_prefix", route_prefix="0/1", consume_route=True, do_start_stop_run=op[1])
            elif name in ("rule_prefix_same", "rule_id_same"):
                idx = "F" if op[2] == "F" else m.nsinks - 1
                sink = impl.fb if op[2] == "F" else impl.sinks[idx]
                m.nrules += 1
                # routing changes; a sink that is registered for start/stop already stays registered
                # ONCE (start/stop reach it once per run however many of its rules asked for them)
                dss = op[3]
                if dss and idx not in m.registered:
                    m.registered.append(idx)
                    if m.in_run:
                        expected[idx].append(("startTestRun",))
                if name == "rule_prefix_same":
                    m.prefixes[op[1]] = (idx, False)
                    impl.router.add_rule(sink, "route_code_prefix", route_prefix=op[1], do_start_stop_run=dss)
                else:
                    m.ids[op[1]] = idx
                    impl.router.add_rule(sink, "test_id", test_id=op[1], do_start_stop_run=dss)
            elif name in ("rule_prefix", "rule_id"):
                sink = EqStream()
                idx = len(impl.sinks)
                impl.sinks.append(sink)
                expected[idx] = []
                m.nrules += 1
                m.nsinks += 1
                if name == "rule_prefix":
                    _, p, consume, dss = op
                    m.prefixes[p] = (idx, consume)
                else:
                    _, t, dss = op
                    m.ids[t] = idx
                if dss:
                    m.registered.append(idx)
                    if m.in_run:
                        expected[idx].append(("startTestRun",))
                if name == "rule_prefix":
                    impl.router.add_rule(sink, "route_code_prefix", route_prefix=p, consume_route=consume, do_start_stop_run=dss)
                else:
                    impl.router.add_rule(sink, "test_id", test_id=t, do_start_stop_run=dss)
            elif name == "status":
                _, rc, tid = op
                dest = m.route(rc, tid)
                kw = payload(rc, tid)
                if dest is None:
                    must_raise = True
                else:
                    exp = dict(kw)
                    exp["route_code"] = dest[1]
                    expected[dest[0]].append(("status", exp))
                if tid == "b":
                    # (these events are passed positionally, in the documented order)
                    impl.router.status(*[kw[f] for f in rec.Stream.FIELDS])
                else:
                    impl.router.status(**kw)
            else:
                raise AssertionError(op)
        except Exception as e:
            raised = e
        if check:
            if must_raise and raised is None:
                if name == "rule_bad":
                    problems.append(("bad-rule-accepted", "add_rule with a two-segment route prefix did not raise"))
                else:
                    problems.append(("no-destination", "event with no matching rule and no fallback did not raise"))
            if not must_raise and raised is not None:
                problems.append(("call-raised", "%s raised %s: %s" % (name, type(raised).__name__, raised)))
            logs = impl.logs()
            for k in sorted(logs, key=repr):
                got = logs[k]
                exp = expected.get(k, [])
                if _norm(got) != _norm(exp):
                    clause = "routing" if name == "status" else "start-stop"
                    problems.append((clause, "sink %r received %r, model says %r" % (k, _norm(got), _norm(exp))))
        impl.clear()
        return problems

    def canon(self, impl, m):
        try:
            return (m.key(), snapshot(impl.router))
        except Exception:
            return None

    def fingerprint(self, clause, hist, msg):
        last = hist[-1]
        if clause == "start-stop" and last[0].startswith("rule_") and not last[-1]:
            return "C18/start-stop/unregistered-rule-added-mid-run-gets-startTestRun"
        return "C18/%s/%s" % (clause, last[0])

    def replay_data(self, hist):
        return {"fallback": self.fallback, "history": [list(o) for o in hist]}


def _norm(log):
    out = []
    for e in log:
        if e[0] == "status":
            d = e[1]
            out.append(("status",) + tuple((k, (sorted(d[k]) if isinstance(d[k], (set, frozenset)) else d[k])) for k in rec.Stream.FIELDS))
        else:
            out.append(tuple(e))
    return out


# ---------------------------------------------------------------------------
# push/pop inverse: StreamToQueue(code) then a consuming rule for code


def inverse_check(res, tier):
    codes = ("0", "1", "x") if tier == "quick" else ("0", "1", "x", "10")
    originals = (None, "a", "a/b", "0", "0/1") if tier == "quick" else (None, "a", "a/b", "0", "0/1", "1/0/2")
    for depth in (1, 2, 3):
        for nest in itertools.product(codes, repeat=depth):
            for rc in originals:
                for consume_at in ("all",):
                    res.evaluations += 1
                    res.states += 1
                    res.transitions += 2 * depth
                    res.traces_validated += 1
                    q = queue.Queue()
                    # innermost StreamToQueue is applied first: nest[0] is innermost
                    inner = StreamToQueue(q, nest[0])
                    kw = payload(rc, "a")
                    inner.status(**kw)
                    ev = q.get_nowait()
                    for code in nest[1:]:
                        q2 = queue.Queue()
                        s2 = StreamToQueue(q2, code)
                        ev.pop("event")
                        s2.status(**ev)
                        ev = q2.get_nowait()
                    ev.pop("event")
                    # routers: outermost code first
                    final = rec.Stream()
                    target = final
                    for code in nest:
                        r = StreamResultRouter()
                        r.add_rule(target, "route_code_prefix", route_prefix=code, consume_route=True)
                        target = r
                    try:
                        target.status(**ev)
                        got = _norm(final.log)
                    except Exception as e:
                        got = "raised %s: %s" % (type(e).__name__, e)
                    exp = _norm([("status", kw)])
                    res.distinct.add(obs_hash(("inv", nest, rc)))
                    if got != exp:
                        res.violation(
                            "C18/inverse/StreamToQueue-then-consuming-rule",
                            "event with route code %r pushed through StreamToQueue codes %r and popped by consuming routers arrived as %r, expected %r" % (rc, nest, got, exp),
                            {"inverse": {"nest": list(nest), "route_code": rc}},
                        )
    res.add_sample({"inverse": {"nest": ["0", "1"], "route_code": "a/b"}})


class AddingSink(rec.Stream):
    """A sink that registers a further rule from inside its own startTestRun/stopTestRun callback
    (the class docstring suggests creating rules as needed from a handler)."""

    def __init__(self, router_ref, when, new_sink, nth=1):
        rec.Stream.__init__(self)
        self.router_ref = router_ref
        self.when = when
        self.new_sink = new_sink
        self.nth = nth
        self.count = {"startTestRun": 0, "stopTestRun": 0}

    def _maybe(self, name):
        self.count[name] += 1
        if name == self.when and self.count[name] == self.nth:
            self.router_ref[0].add_rule(self.new_sink, "route_code_prefix", route_prefix="9", consume_route=True, do_start_stop_run=True)

    def startTestRun(self):
        rec.Stream.startTestRun(self)
        self._maybe("startTestRun")

    def stopTestRun(self):
        rec.Stream.stopTestRun(self)
        self._maybe("stopTestRun")


def reentrant_check(res):
    """Rules registered from inside a start/stop callback while the router is fanning it out."""
    for host in ("fallback", "rule"):
        for when in ("startTestRun", "stopTestRun"):
            for nth in (1, 2):
                for extra_sinks_after in (0, 1):
                    ref = [None]
                    new = rec.Stream()
                    adding = AddingSink(ref, when, new, nth)
                    later = rec.Stream()
                    if host == "fallback":
                        router = StreamResultRouter(adding)
                    else:
                        router = StreamResultRouter()
                        router.add_rule(adding, "route_code_prefix", route_prefix="0", do_start_stop_run=True)
                    if extra_sinks_after:
                        router.add_rule(later, "route_code_prefix", route_prefix="1", do_start_stop_run=True)
                    ref[0] = router
                    res.evaluations += 1
                    res.states += 1
                    res.transitions += 6
                    res.traces_validated += 1
                    try:
                        for run in (1, 2, 3):
                            router.startTestRun()
                            if any(k == "9" for k in getattr(router, "_route_code_prefixes", {"9": 1})):
                                pass
                            router.stopTestRun()
                    except Exception as e:
                        res.violation("C18/start-stop/rule-added-from-callback", "router raised %s: %s [host=%s when=%s nth=%d]" % (type(e).__name__, e, host, when, nth), {"reentrant": [host, when, nth, extra_sinks_after]})
                        continue
                    names = [e[0] for e in new.log]
                    # registered during run number nth: from then on exactly one start and one stop per run, alternating
                    runs_seen = 3 - nth + 1
                    want = ["startTestRun", "stopTestRun"] * runs_seen
                    res.distinct.add(obs_hash(("reentrant", host, when, nth, extra_sinks_after)))
                    if names != want:
                        res.violation(
                            "C18/start-stop/rule-added-from-callback",
                            "a sink registered (do_start_stop_run=True) from inside a sink's %s callback of run %d received %r over runs %d..3, expected %r [host=%s, further registered sinks=%d]" % (when, nth, names, nth, want, host, extra_sinks_after),
                            {"reentrant": [host, when, nth, extra_sinks_after]},
                        )
                    if extra_sinks_after and [e[0] for e in later.log] != ["startTestRun", "stopTestRun"] * 3:
                        res.violation("C18/start-stop/rule-added-from-callback", "a sibling registered sink received %r" % ([e[0] for e in later.log],), {"reentrant": [host, when, nth, extra_sinks_after]})
    res.add_sample({"reentrant": ["fallback", "startTestRun", 1, 1]})


def shards(tier):
    return [("bfs", f) for f in FALLBACKS] + [("inverse",), ("reentrant",)]


def run_shard(shard, tier, seed):
    res = ShardResult()
    if shard[0] == "inverse":
        inverse_check(res, tier)
        return res
    if shard[0] == "reentrant":
        reentrant_check(res)
        return res
    depth = 6 if tier == "quick" else 8
    sysm = System(shard[1], 3)
    bfs(sysm, depth, res, label=shard[1], sample_every=37)
    res.notes["depth"] = depth
    return res


def meta(tier):
    return {
        "technique": MANIFEST_INFO["technique"],
        "rule": "BFS over histories; state = (model rule tables, structural snapshot of the router); every transition is executed on the real router and all sink logs compared; non-trivial = non-initial state; distinct = distinct canonical states / distinct (nesting, route code) pairs",
        "bounds": {"depth": 6 if tier == "quick" else 8, "rules": 3, "route_codes": list(ROUTE_CODES), "test_ids": list(TEST_IDS), "fallbacks": list(FALLBACKS), "inverse_nesting": 3},
        "assumptions": [
            "status events are passed by keyword",
            "rule sets are unambiguous (at most one rule per prefix / test id)",
            "startTestRun/stopTestRun alternate",
        ],
    }


def replay(data):
    if "reentrant" in data:
        res = ShardResult()
        reentrant_check(res)
        return (not res.violations), repr([v["message"] for v in res.violations][:4])
    if "inverse" in data:
        res = ShardResult()
        inverse_check(res, "thorough")
        bad = [v for v in res.violations]
        return (not bad), repr(bad)
    sysm = System(data["fallback"], 99)
    impl, m = sysm.fresh()
    out, ok = [], True
    for o in data["history"]:
        op = tuple(o)
        problems = sysm.apply(impl, m, op, True)
        out.append("%r -> %r" % (op, problems))
        ok = ok and not problems
    return ok, "\n".join(out)
