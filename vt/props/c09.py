"""C09 — TestResult -> StreamResult -> TestResult conversion preserves every test."""

import datetime
import itertools
import sys

import testtools
from testtools import PlaceHolder
from testtools.content import Content, TracebackContent
from testtools.content_type import ContentType
from testtools.testresult.real import (
    CopyStreamResult,
    ExtendedToStreamDecorator,
    StreamToExtendedDecorator,
)

from vt import recorders as rec
from vt.explore.chooser import obs_hash
from vt.runner import ShardResult

PROPERTY = "C09"

MANIFEST_INFO = {
    "engine": "B",
    "design_ref": "DESIGN.md section 5, C09",
    "technique": "exhaustive enumeration of well-formed TestResult histories (0-3 tests x six outcomes x exc_info / reason / details forms, run- and test-level tags incl. a tag change between outcome and stopTest, explicit (ascending, or set back inside a test) or implicit times) x detail payload shapes (0-2 details, 11 chunk lists (one cutting a UTF-8 sequence in two) incl. empty chunks, 4 content types with parameters, non-ASCII and empty names, non-ASCII reasons), each replayed on a fresh real ExtendedToStreamDecorator -> {stream recorder, StreamToExtendedDecorator -> extended recorder} pipeline; stream well-formedness and per-test round-trip equality oracles",
    "level_text": "Every single-test history over all ~9000 (outcome, form, payload) variants x 4 tag/time settings, every two-test history over a 60-variant alphabet (thorough: 3 tests over 14 variants, 2 tests over 120), is pushed through the real converters. Between them the stream must show per test one 'inprogress', then each detail's chunks in order with eof exactly on its last chunk, then exactly one final status; at the far end each test must reappear as one startTest/outcome/stopTest bracket with the same id, the mapped outcome (error -> failure), the tags current at its outcome, the supplied times, the skip reason and every non-empty detail with identical bytes and content type. Further settings: a first test whose id is the empty string, content types built on the spot by each test (the next one allocated at the address of a dead one - the harness insists and counts), the converters reused for a second run without any time() and for a third in which a supplied time is withdrawn again with time(None).",
    "level_note": "Content types are within the C16 round-trip envelope; details consisting only of empty chunks need not reappear; without explicit time() only the presence of timestamps is checked.",
}

UTC = datetime.timezone.utc


def ts(n):
    return datetime.datetime(2023, 3, 3, 0, 0, n, tzinfo=UTC)


# (the last two repeat the very same bytes object: b"" and one-byte bytes are interned by CPython)
CHUNKS = ([], [b""], [b"a"], [b"a", b""], [b"", b"a"], [b"a", b"bc"], [b"\xff\xfe"], [b"", b"", b"x"], [b"a", b"b", b"a"], [b"", b"x", b""], [b"a\xc3", b"\xa9b"])
TYPES = (
    ContentType("text", "plain", {"charset": "utf8"}),
    ContentType("application", "octet-stream"),
    ContentType("text", "x-t", {"k": "v w", "j": "1"}),
    ContentType("text", "csv", {"fields": "ts,level", "charset": "utf8"}),
    ContentType("application", "octet-stream", {"type": "core-dump", "padding": "8"}),  # (the default type, with parameters of its own)
)
NAMES = ("d1", "détail")
# a second name set: the empty string is a legal detail name too
NAME_SETS = (NAMES, ("", "d1"))
OUTCOMES = ("addSuccess", "addError", "addFailure", "addSkip", "addExpectedFailure", "addUnexpectedSuccess")
MAPPED = {"addSuccess": "addSuccess", "addError": "addFailure", "addFailure": "addFailure", "addSkip": "addSkip", "addExpectedFailure": "addExpectedFailure", "addUnexpectedSuccess": "addUnexpectedSuccess"}
FINAL = {"addSuccess": "success", "addError": "fail", "addFailure": "fail", "addSkip": "skip", "addExpectedFailure": "xfail", "addUnexpectedSuccess": "uxsuccess"}


class _Case(testtools.TestCase):
    def test_x(self):
        pass

    def id(self):
        return self._vt_id


def make_test(kind, n, tid=None):
    if kind == "case":
        t = _Case("test_x")
        t._vt_id = tid if tid is not None else "case%d" % n
        return t
    return PlaceHolder(tid if tid is not None else "ph%d" % n)


def payload_alphabet():
    # (bytes that are not valid UTF-8 are not declared as utf8 text)
    return [(ci, ti) for ci in range(len(CHUNKS)) for ti in range(len(TYPES)) if not (ci == 6 and ti in (0, 3)) and not (ci == 10 and ti not in (0, 3))]


def variants_full():
    """(outcome, form, payload tuple) for single-test histories."""
    P = payload_alphabet()
    payloads = [()] + [(p,) for p in P] + [(p, q) for p in P for q in P]
    out = []
    for o in OUTCOMES:
        for pl in payloads:
            out.append((o, "details", pl))
        if o in ("addError", "addFailure", "addExpectedFailure"):
            out.append((o, "exc", ()))
        if o == "addSkip":
            out.append((o, "reason", ()))
            out.append((o, "reason-nonascii", ()))
        if o in ("addSuccess", "addUnexpectedSuccess"):
            out.append((o, "none", ()))
    return out


def variants_small(n_payloads):
    P = payload_alphabet()
    step = max(1, len(P) // n_payloads)
    chosen = [(), ] + [(P[i],) for i in range(0, len(P), step)][:n_payloads] + [(P[5], P[18]), (P[-1], P[-5])]
    out = []
    for o in OUTCOMES:
        for pl in chosen:
            out.append((o, "details", pl))
        if o in ("addError", "addExpectedFailure"):
            out.append((o, "exc", ()))
        if o == "addSkip":
            out.append((o, "reason-nonascii", ()))
        if o == "addSuccess":
            out.append((o, "none", ()))
    return out


def make_details(payload, names=NAMES, fresh_types=False, dead_ids=(), victims=None):
    d = {}
    if victims:
        # the previous test's details die now, immediately before the new content types are made
        victims.clear()
    for i, (ci, ti) in enumerate(payload):
        chunks = list(CHUNKS[ci])
        ct = TYPES[ti]
        if fresh_types:
            # as a test that builds its content types on the spot does; the allocator hands out
            # the addresses of dead objects again, and we insist on seeing that happen here: the
            # new content type sits where one of the previous test's (now dead) ones sat
            # (the parameter dicts come from a pool made beforehand, so that the only objects
            # allocated here are the content types themselves)
            spares = _SPARES
            base = ct
            for k in range(len(_PARAM_POOL[ti])):
                ct = ContentType(base.type, base.subtype, _PARAM_POOL[ti][k])
                if not dead_ids or id(ct) in dead_ids:
                    break
                spares[k] = ct
            else:
                FRESH_STATS["address_not_reused"] += 1
            FRESH_STATS["fresh_types"] += 1
            for k in range(len(spares)):
                spares[k] = None
        d[names[i]] = Content(ct, lambda chunks=chunks: list(chunks))
    return d


FRESH_STATS = {"fresh_types": 0, "address_not_reused": 0}
_PARAM_POOL = [[dict(t.parameters) for _ in range(500)] for t in TYPES]
_SPARES = [None] * 500


def times_of(n, explicit):
    """(start, end) supplied for test n; "back": the clock is set back inside the test
    (TestResult.time documents that time may go backwards)."""
    if explicit == "back":
        return ts(2 * n + 2), ts(2 * n + 1)
    return ts(2 * n + 1), ts(2 * n + 2)


def run_history(tests, setting):
    """tests: [(test kind, outcome, form, payload)]; setting: (run_tags, test_tags, explicit_times[, name set])

    test_tags == "late": the test's tags are changed once more between its outcome and stopTest
    (the stream is inspected after the run, as a queue or an event log would hold it)."""
    run_tags, test_tags, explicit = setting[:3]
    names = NAME_SETS[setting[3]] if len(setting) > 3 else NAMES
    target_stopped = len(setting) > 4 and setting[4] == "stopped"
    fresh_types = len(setting) > 4 and setting[4] == "freshtypes"
    empty_id = len(setting) > 4 and setting[4] == "emptyid"  # the first test's id is the empty string
    same_id = len(setting) > 4 and setting[4] == "sameid"  # a test that is run again (retried) within the run
    stream = rec.Stream()
    ext = rec.Ext()
    top = ExtendedToStreamDecorator(CopyStreamResult([stream, StreamToExtendedDecorator(ext)]))
    if target_stopped:
        # the final result was asked to stop earlier on (its own fail-fast, a stop() from elsewhere):
        # tests that are reported nevertheless still have to arrive
        ext.shouldStop = True
    problems = []
    reported = []
    dead_ids = set()
    victims = None
    try:
        top.startTestRun()
        if run_tags:
            top.tags({"run"}, set())
        for n, (tk, outcome, form, payload) in enumerate(tests):
            t = make_test(tk, n, "retried" if same_id else "" if (empty_id and n == 0) else None)
            if explicit:
                top.time(times_of(n, explicit)[0])
            top.startTest(t)
            if test_tags == "strip":
                # the test drops every tag that was current when it started
                top.tags(set(), {"run"})
            elif test_tags:
                top.tags({"t%d" % n}, {"run"} if n % 2 else set())
            if explicit:
                top.time(times_of(n, explicit)[1])
            details = None
            reason = None
            exc = None
            if form == "details" and fresh_types:
                # every detail has a content type object of its own, which lives no longer than
                # the test does
                details = make_details(payload, names, fresh_types=True, dead_ids=dead_ids, victims=victims)
                dead_ids = {id(c.content_type) for c in details.values()}
                getattr(top, outcome)(t, details=details)
                victims = details
                details = make_details(payload, names)  # (equal, for the comparison below)
            elif form == "details":
                details = make_details(payload, names)
                getattr(top, outcome)(t, details=details)
            elif form == "exc":
                try:
                    raise ValueError("marker%d-é" % n)
                except ValueError:
                    exc = sys.exc_info()
                getattr(top, outcome)(t, exc)
            elif form in ("reason", "reason-nonascii"):
                reason = "why%d" % n if form == "reason" else "pourquoi-é-%d" % n
                top.addSkip(t, reason)
            else:
                getattr(top, outcome)(t)
            if test_tags == "late":
                top.tags({"late%d" % n}, {"t%d" % n})
            top.stopTest(t)
            tags = set()
            if run_tags:
                tags.add("run")
            if test_tags == "strip":
                tags.discard("run")
            elif test_tags:
                tags.add("t%d" % n)
                if n % 2:
                    tags.discard("run")
            reported.append(dict(id=t.id(), outcome=outcome, details=details, reason=reason, exc=exc, tags=tags, n=n, test=t))
        top.stopTestRun()
    except Exception as e:
        problems.append(("call-raised", "%s: %s (after %d tests)" % (type(e).__name__, str(e)[:150], len(reported))))
        return problems
    first_stream, first_ext = list(stream.log), list(ext.log)
    if len(setting) > 4 and setting[4] == "rerun":
        # the same converter objects used for a second run in which nobody supplies a time: every
        # event of that run carries the clock's time, not the last time() of the run before
        import datetime as _dt

        before = _dt.datetime.now(_dt.timezone.utc)
        try:
            top.startTestRun()
            t = make_test("placeholder", 99)
            top.startTest(t)
            top.addSuccess(t)
            top.stopTest(t)
            top.stopTestRun()
            n_second = len(stream.log)
            # a third run: a time is supplied for its first test and withdrawn again (time(None):
            # "reset the TestResult to gathering time from the system") before its second
            top.startTestRun()
            top.time(ts(50))
            t = make_test("placeholder", 100)
            top.startTest(t)
            top.addSuccess(t)
            top.stopTest(t)
            top.time(None)
            t = make_test("placeholder", 101)
            top.startTest(t)
            top.addSuccess(t)
            top.stopTest(t)
            top.time(ts(50))
            t = make_test("placeholder", 102)
            top.startTest(t)
            top.addSuccess(t)
            top.stopTest(t)
            top.stopTestRun()
            # a fourth run, whose first supplied time happens to equal the last one of the third
            top.startTestRun()
            top.time(ts(50))
            t = make_test("placeholder", 103)
            top.startTest(t)
            top.addSuccess(t)
            top.stopTest(t)
            top.stopTestRun()
        except Exception as e:
            problems.append(("call-raised", "second run: %s: %s" % (type(e).__name__, str(e)[:150])))
            return problems
        after = _dt.datetime.now(_dt.timezone.utc)
        evs3 = [e[1] for e in stream.log[n_second:] if e[0] == "status"]
        del stream.log[n_second:]
        got3 = [("supplied" if e["timestamp"] == ts(50) else "clock" if e["timestamp"] is not None and before <= e["timestamp"] <= after else repr(e["timestamp"])) for e in evs3]
        if got3 != ["supplied", "supplied", "clock", "clock", "supplied", "supplied", "supplied", "supplied"]:
            problems.append(("stream-time", "third run, time(t) for the first test, time(None) before the second, time(t) before the third, and a fourth run starting with time(t): event timestamps are %r" % (got3,)))
        runs_ext = [i for i, e in enumerate(ext.log) if e[0] == "startTestRun"]
        times4 = [e[1] for e in ext.log[runs_ext[-1] :] if e[0] == "time"]
        if not times4 or any(x != ts(50) for x in times4):
            problems.append(("roundtrip-times", "fourth run, every time supplied is %r: the far end was told %r" % (ts(50), times4)))
        n_ext3 = runs_ext[-2]
        del ext.log[n_ext3:]
        evs2 = [e[1] for e in stream.log[len(first_stream) :] if e[0] == "status"]
        if [e["test_status"] for e in evs2 if e["test_status"]] != ["inprogress", "success"]:
            problems.append(("stream-final", "second run: stream %r" % (_brief(evs2),)))
        for e in evs2:
            if e["timestamp"] is None or not (before <= e["timestamp"] <= after):
                problems.append(("stream-time", "second run without time(): event timestamp %r, the run took place between %r and %r" % (e["timestamp"], before, after)))
                break
        times2 = [e[1] for e in ext.log[len(first_ext) :] if e[0] == "time"]
        if any(x is None or not (before <= x <= after) for x in times2):
            problems.append(("roundtrip-times", "second run without time(): replayed times %r, the run took place between %r and %r" % (times2, before, after)))
    problems.extend(check_stream(first_stream, reported, explicit))
    problems.extend(check_roundtrip(first_ext, reported, explicit))
    return problems


def check_stream(log, reported, explicit):
    problems = []
    evs = [e[1] for e in log if e[0] == "status"]
    names = [e[0] for e in log]
    if names[:1] != ["startTestRun"] or names[-1:] != ["stopTestRun"] or names.count("startTestRun") != 1 or names.count("stopTestRun") != 1:
        problems.append(("stream-run", "run bracketing in the stream: %r" % ([n for n in names if n != "status"],)))
    pos = 0
    for r in reported:
        tid = r["id"]
        n = r["n"]
        # inprogress
        if pos >= len(evs) or evs[pos]["test_id"] != tid or evs[pos]["test_status"] != "inprogress" or evs[pos]["file_name"] is not None:
            problems.append(("stream-inprogress", "test %s: expected an 'inprogress' event at position %d, stream %r" % (tid, pos, _brief(evs))))
            return problems
        if evs[pos]["timestamp"] is None or (explicit and evs[pos]["timestamp"] != times_of(n, explicit)[0]):
            problems.append(("stream-time", "test %s: inprogress timestamp %r" % (tid, evs[pos]["timestamp"])))
        pos += 1
        expected_files = []
        if r["details"] is not None:
            for name, c in r["details"].items():
                chunks = list(c.iter_bytes()) or [b""]
                expected_files.append((name, repr(c.content_type), chunks))
        if r["exc"] is not None:
            c = TracebackContent(r["exc"], r["test"])
            expected_files.append(("traceback", repr(c.content_type), list(c.iter_bytes()) or [b""]))
        if r["reason"] is not None:
            expected_files.append(("reason", None, [r["reason"].encode("utf8")]))
        for name, mime, chunks in expected_files:
            for i, ch in enumerate(chunks):
                if pos >= len(evs):
                    problems.append(("stream-files", "test %s: stream ended inside detail %r" % (tid, name)))
                    return problems
                e = evs[pos]
                last = i == len(chunks) - 1
                if e["test_id"] != tid or e["file_name"] != name or e["file_bytes"] != ch or bool(e["eof"]) != last or e["test_status"] is not None:
                    clause = "stream-eof" if (e["file_name"] == name and e["file_bytes"] == ch and bool(e["eof"]) != last) else "stream-files"
                    problems.append((clause, "test %s detail %r chunk %d: expected bytes %r eof=%r, stream has %r" % (tid, name, i, ch, last, {k: e[k] for k in ("test_id", "file_name", "file_bytes", "eof", "test_status")})))
                    return problems
                if mime is not None and e["mime_type"] != mime:
                    problems.append(("stream-mime", "test %s detail %r: mime type %r, expected %r" % (tid, name, e["mime_type"], mime)))
                pos += 1
        # exactly one final status
        if pos >= len(evs) or evs[pos]["test_id"] != tid or evs[pos]["test_status"] != FINAL[r["outcome"]] or evs[pos]["file_name"] is not None:
            problems.append(("stream-final", "test %s: expected final status %r at position %d, stream %r" % (tid, FINAL[r["outcome"]], pos, _brief(evs))))
            return problems
        if set(evs[pos]["test_tags"] or ()) != r["tags"]:
            problems.append(("stream-tags", "test %s: final event tags %r, reporter's tags %r" % (tid, evs[pos]["test_tags"], sorted(r["tags"]))))
        if evs[pos]["timestamp"] is None or (explicit and evs[pos]["timestamp"] != times_of(n, explicit)[1]):
            problems.append(("stream-time", "test %s: final timestamp %r" % (tid, evs[pos]["timestamp"])))
        pos += 1
    if pos != len(evs):
        problems.append(("stream-extra", "extra stream events %r" % (_brief(evs[pos:]),)))
    return problems


def _brief(evs):
    return [(e["test_id"], e["test_status"], e["file_name"], e["file_bytes"], e["eof"]) for e in evs]


def check_roundtrip(log, reported, explicit):
    problems = []
    # split into per-test blocks
    blocks = []
    cur = None
    pre = []
    for e in log:
        if e[0] in ("startTestRun", "stopTestRun"):
            continue
        if e[0] == "startTest":
            cur = {"test": e[1], "pre": pre, "in": []}
            pre = []
            blocks.append(cur)
        elif e[0] == "stopTest":
            cur = None
        elif cur is None:
            pre.append(e)
        else:
            cur["in"].append(e)
    if len(blocks) != len(reported):
        problems.append(("roundtrip-count", "%d tests reported, %d arrived: %r" % (len(reported), len(blocks), [b["test"].id() for b in blocks])))
        return problems
    for b, r in zip(blocks, reported):
        tid = r["id"]
        outs = [e for e in b["in"] if e[0] in rec.OUTCOMES]
        if b["test"].id() != tid or len(outs) != 1 or outs[0][0] != MAPPED[r["outcome"]]:
            problems.append(("roundtrip-outcome", "test %s %s arrived as %r %r" % (tid, r["outcome"], b["test"].id(), [o[0] for o in outs])))
            continue
        out = outs[0]
        # tags in effect at the outcome
        tags = set()
        for e in b["pre"]:
            if e[0] == "tags":
                tags |= set(e[1])
                tags -= set(e[2])
        for e in b["in"]:
            if e is out:
                break
            if e[0] == "tags":
                tags |= set(e[1])
                tags -= set(e[2])
        if tags != r["tags"]:
            problems.append(("roundtrip-tags", "test %s: tags at the outcome %r, reporter's were %r" % (tid, sorted(tags), sorted(r["tags"]))))
        times = [e[1] for e in b["pre"] if e[0] == "time"] + [e[1] for e in b["in"] if e[0] == "time" and b["in"].index(e) < b["in"].index(out)]
        if explicit:
            if times != list(times_of(r["n"], explicit)):
                problems.append(("roundtrip-times", "test %s: times %r, supplied %r" % (tid, times, list(times_of(r["n"], explicit)))))
        elif len(times) != 2 or any(t is None for t in times):
            problems.append(("roundtrip-times", "test %s: times %r" % (tid, times)))
        got = out[3] or {}
        if r["details"] is not None:
            for name, c in r["details"].items():
                data = b"".join(c.iter_bytes())
                if not data:
                    continue
                g = got.get(name)
                if g is None or b"".join(g.iter_bytes()) != data or g.content_type != c.content_type:
                    problems.append(("roundtrip-details", "test %s detail %r: sent (%r, %r), arrived %r" % (tid, name, c.content_type, data, None if g is None else (g.content_type, b"".join(g.iter_bytes())))))
        if r["exc"] is not None:
            g = got.get("traceback")
            want = TracebackContent(r["exc"], r["test"])
            if g is None or b"".join(g.iter_bytes()) != b"".join(want.iter_bytes()) or g.content_type != want.content_type:
                problems.append(("roundtrip-details", "test %s: traceback did not survive: %r" % (tid, None if g is None else b"".join(g.iter_bytes())[:80])))
        if r["reason"] is not None:
            g = got.get("reason")
            text = out[2] if out[2] is not None else (g.as_text() if g is not None else None)
            if text != r["reason"]:
                problems.append(("roundtrip-reason", "test %s: skip reason %r arrived as %r" % (tid, r["reason"], text)))
    return problems


SETTINGS = [(rt, tt, ex) for rt in (False, True) for tt in (False, True) for ex in (False, True)]


def work_items(tier):
    items = []
    full = variants_full()
    for v in full:
        for s in ((False, False, True, 1), (True, True, True, 0), (True, False, False, 0), (False, True, False, 1), (True, "late", True, 0)):
            items.append(([("case",) + v], s))
    small = variants_small(8 if tier == "quick" else 18)
    for a, b in itertools.product(small, repeat=2):
        for s in ((True, True, True, 0), (False, True, False, 1), (True, "late", False, 0)):
            items.append(([("case",) + a, ("placeholder",) + b], s))
    for a, b in itertools.product(variants_small(3), repeat=2):
        items.append(([("case",) + a, ("placeholder",) + b], (True, True, True, 0, "stopped")))
        items.append(([("case",) + a, ("placeholder",) + b], (False, True, "back", 0)))
        items.append(([("case",) + a, ("placeholder",) + b], (True, True, True, 0, "sameid")))
        items.append(([("placeholder",) + a, ("case",) + b], (True, True, True, 0, "emptyid")))
        items.append(([("case",) + a, ("placeholder",) + b], (True, "strip", True, 0)))
    for ti, tj in itertools.product(range(len(TYPES)), repeat=2):
        items.append(([("case", "addSuccess", "details", ((1, ti),)), ("placeholder", "addError", "details", ((1, tj), (2, ti)))], (False, False, True, 0, "freshtypes")))
    for a in variants_small(3):
        items.append(([("case",) + a], (True, True, True, 0, "rerun")))
    if tier != "quick":
        tiny = variants_small(2)[::2]
        for a, b, c in itertools.product(tiny, repeat=3):
            items.append(([("placeholder",) + a, ("case",) + b, ("case",) + c], (True, "late", True, 1)))
    items.append(([], (True, False, True)))
    return items


NSHARDS = 64


def shards(tier):
    return list(range(NSHARDS))


def run_shard(shard, tier, seed):
    res = ShardResult()
    items = work_items(tier)
    for i in range(shard, len(items), NSHARDS):
        tests, setting = items[i]
        problems = run_history(tests, setting)
        res.states += 1
        res.evaluations += 1
        res.transitions += 4 * len(tests) + 2
        if tests:
            res.distinct.add(obs_hash((tuple(tests), setting)))
        for clause, msg in problems:
            res.violation("C09/%s" % clause, "%s [history %r setting %r]" % (msg, tests, setting), {"tests": [list(t[:3]) + [[list(p) for p in t[3]]] for t in tests], "setting": list(setting)})
    res.traces_validated = res.evaluations
    res.count("content_types_built_on_the_spot", FRESH_STATS["fresh_types"])
    res.count("of_which_at_the_address_of_a_dead_one", FRESH_STATS["fresh_types"] - FRESH_STATS["address_not_reused"])
    res.add_sample({"history": [["case", "addSkip", "reason-nonascii", []], ["placeholder", "addFailure", "details", [[3, 2], [7, 0]]]], "setting": [True, True, True]})
    res.notes["histories"] = len(items)
    return res


def meta(tier):
    return {
        "technique": MANIFEST_INFO["technique"],
        "rule": "states = (history, tag/time setting) pairs replayed on a fresh pipeline; non-trivial = histories with >= 1 test; distinct = distinct (history, setting)",
        "bounds": {"single_test_variants": len(variants_full()), "pair_alphabet": len(variants_small(8 if tier == "quick" else 18)), "tests": 2 if tier == "quick" else 3, "chunk_shapes": len(CHUNKS), "content_types": [repr(t) for t in TYPES]},
        "assumptions": MANIFEST_INFO["level_note"].split("; "),
    }


def replay(data):
    tests = [tuple(t[:3]) + (tuple(tuple(p) for p in t[3]),) for t in data["tests"]]
    p = run_history(tests, tuple(data["setting"]))
    return (not p), "history=%r setting=%r problems=%r" % (tests, data["setting"], p)
