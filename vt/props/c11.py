"""C11 — stream decorators forward each event once, change only their field, never alias."""

import datetime
import itertools
import queue

from testtools.testresult.real import (
    CopyStreamResult,
    StreamFailFast,
    StreamTagger,
    StreamToQueue,
    TimestampingStreamResult,
)

from vt.explore.chooser import obs_hash
from vt.runner import ShardResult

PROPERTY = "C11"

MANIFEST_INFO = {
    "engine": "B",
    "design_ref": "DESIGN.md section 5, C11",
    "technique": "exhaustive enumeration of decorator trees (CopyStreamResult, StreamTagger x4 parameterisations (add only, add+discard, discard only, overlapping add/discard), TimestampingStreamResult, StreamToQueue drained into its child, StreamFailFast, recording sinks; depth <= 3, fan-out <= 2/3) x all event sequences up to a length bound (tags as set / frozenset / None / empty, timestamp present or absent, positional or keyword ids), each executed on fresh real objects; expected sink logs are the composition of pure per-decorator transforms along each path; argument and alias snapshots",
    "level_text": "Every spine tree of decorator depth <= 2 with every leaf-sibling placement (about 2000 trees) and every depth-3 spine (quick: siblings only at the root; thorough: everywhere, plus fan-out 3) is built afresh and fed startTestRun, every sequence of <= 2 (quick) / 3 (thorough) events from a 17-event alphabet (incl. an empty-string route code, a supplied timestamp in the future, a supplied naive timestamp, a failing status carrying an attachment, eof and mime type without a file), also with the run ended and the same tree started again in between; sinks that return None or a truthy value; taggers configured with sets or one-shot iterators, stopTestRun. Each sink must have received exactly the sent events transformed by the decorators on its own path (tags added/discarded, missing timestamp filled with a tz-aware UTC 'now' inside the call bracket (the checks run in a local time zone that is not UTC), route code prefixed) and nothing else; the fail-fast callback count must equal the number of fail/uxsuccess events reaching it; the caller's argument objects must be unchanged after every call; no tag set held by one sink may change after it was delivered (aliasing with a sibling or the caller).",
    "level_note": "Only test_id/test_status are passed positionally (as every caller in testtools does); StreamToQueue is drained by the harness after every call, forwarding start/stop/status to its child.",
}

UTC = datetime.timezone.utc
T1 = datetime.datetime(2021, 5, 5, 1, 2, 3, tzinfo=UTC)


class Sink:
    kind = "sink"
    ret = None  # what every method returns (a chatty sink returns something truthy)

    def __init__(self):
        self.log = []  # (name, snapshot) ; for status: snapshot dict with tags frozen
        self.refs = []  # (tags object as received, frozen copy at receipt)

    def startTestRun(self):
        self.log.append(("startTestRun",))
        return self.ret

    def stopTestRun(self):
        self.log.append(("stopTestRun",))
        return self.ret

    def status(self, test_id=None, test_status=None, test_tags=None, runnable=True, file_name=None, file_bytes=None, eof=False, mime_type=None, route_code=None, timestamp=None):
        snap = dict(test_id=test_id, test_status=test_status, test_tags=None if test_tags is None else frozenset(test_tags), runnable=runnable, file_name=file_name, file_bytes=file_bytes, eof=eof, mime_type=mime_type, route_code=route_code, timestamp=timestamp)
        self.log.append(("status", snap))
        if test_tags is not None:
            self.refs.append((test_tags, frozenset(test_tags)))
        return self.ret


class ChattySink(Sink):
    """A sink whose methods return a truthy value (a count, itself, ...)."""

    ret = 7


# ---- tree specs: ("sink",) ("ff",) ("copy", [kids]) ("tag", variant, [kids]) ("ts", kid) ("q", code, kid)
TAG_VARIANTS = {"a": (("x",), ()), "b": (("y",), ("t",)), "c": ((), ("t",)), "d": (("y",), ("t",)),
                # add and discard overlap: the documented order is add first, discard last
                "e": (("y", "u"), ("u", "t"))}
# variant "d" hands add/discard to the tagger as one-shot iterators ("an iterable of tags")


class Built:
    def __init__(self):
        self.sinks = []  # (path transforms, Sink)
        self.ffs = []  # (path transforms, counter list)
        self.queues = []  # (queue, child object) in creation order


def build(spec, path, built):
    k = spec[0]
    if k in ("sink", "sinkT"):
        s = Sink() if k == "sink" else ChattySink()
        built.sinks.append((tuple(path), s))
        return s
    if k == "ff":
        counter = []
        built.ffs.append((tuple(path), counter))
        return StreamFailFast(lambda: counter.append(1))
    if k == "copy":
        return CopyStreamResult([build(c, path, built) for c in spec[1]])
    if k == "tag":
        add, discard = TAG_VARIANTS[spec[1]]
        kids = [build(c, path + [("tag", spec[1])], built) for c in spec[2]]
        if spec[1] == "d":
            return StreamTagger(kids, add=iter(list(add)), discard=(t for t in discard))
        return StreamTagger(kids, add=set(add), discard=set(discard))
    if k == "ts":
        return TimestampingStreamResult(build(spec[1], path + [("ts",)], built))
    if k == "q":
        q = queue.Queue()
        child = build(spec[2], path + [("q", spec[1])], built)
        built.queues.append((q, child))
        return StreamToQueue(q, spec[1])
    raise AssertionError(spec)


def drain(built):
    # a queue may feed a child that contains another queue: repeat until all are empty
    progress = True
    while progress:
        progress = False
        for q, child in built.queues:
            while True:
                try:
                    ev = q.get_nowait()
                except queue.Empty:
                    break
                progress = True
                name = ev.pop("event")
                if name == "status":
                    child.status(**ev)
                elif name == "startTestRun":
                    child.startTestRun()
                elif name == "stopTestRun":
                    child.stopTestRun()


def transform(path, ev):
    """Pure model of what the decorators on ``path`` do to one status event."""
    ev = dict(ev)
    for step in path:
        if step[0] == "tag":
            add, discard = TAG_VARIANTS[step[1]]
            tags = (set(ev["test_tags"] or ()) | set(add)) - set(discard)
            ev["test_tags"] = frozenset(tags) if tags else None
        elif step[0] == "ts":
            if ev["timestamp"] is None:
                ev["timestamp"] = "NOW"
        elif step[0] == "q":
            ev["route_code"] = step[1] if ev["route_code"] is None else step[1] + "/" + ev["route_code"]
    return ev


T_FUTURE = datetime.datetime(2100, 1, 1, tzinfo=UTC)
T_NAIVE = datetime.datetime(2021, 5, 5, 1, 2, 3)  # no tzinfo: compares unequal to every aware datetime
BASE = dict(test_id="t", test_status=None, test_tags=None, runnable=True, file_name=None, file_bytes=None, eof=False, mime_type=None, route_code=None, timestamp=T1)


def ev(**kw):
    d = dict(BASE)
    d.update(kw)
    return d


# (event dict, tags container kind, positional ids?)
EVENTS = [
    (ev(test_status="inprogress"), None, False),
    (ev(test_status="success", test_tags=("t", "u")), "set", False),
    (ev(test_status="fail", test_tags=("t",)), "frozenset", False),
    (ev(test_status="uxsuccess", test_tags=()), "set", False),
    (ev(test_status="skip", timestamp=None), None, False),
    (ev(test_status="xfail", test_tags=("x", "t"), timestamp=None), "set", "all"),
    (ev(test_status="fail", route_code="9", runnable=False), None, True),
    (ev(file_name="f", file_bytes=b"x", eof=True, mime_type="text/plain", route_code="0/7"), None, False),  # (begins with "0", which is also a queue's own code)
    (ev(test_id=None, file_name="g", file_bytes=b"", timestamp=None), None, False),
    (ev(test_status="exists", test_tags=("y",)), "frozenset", False),
    (ev(test_status="success", test_tags=("t",)), "set", "all"),
    (ev(test_status="unknown", test_tags=(), eof=True, mime_type="text/plain"), "frozenset", False),  # (eof and mime type without a file: still the caller's event)
    (ev(test_status="inprogress", test_tags=("t",), timestamp=None), "set", False),
    (ev(test_status="success", route_code=""), None, False),  # an empty route code is not "no route code"
    (ev(test_status="inprogress", timestamp=T_FUTURE), None, False),  # a supplied timestamp ahead of the local clock
    (ev(test_status="fail", file_name="tb", file_bytes=b"x", eof=True), None, False),  # outcome and attachment in ONE event
    (ev(test_status="success", timestamp=T_NAIVE), None, False),  # a supplied naive timestamp is the caller's: forwarded as it is
]

# pseudo event: the run ends and the same tree is used for another run
RESTART = "restart"


def _spec(i):
    return RESTART if i == -1 else EVENTS[i]


def send(top, spec, after=lambda: None):
    d, container, positional = spec
    kw = dict(d)
    tags = kw.pop("test_tags")
    tag_obj = None
    if container == "set":
        tag_obj = set(tags)
    elif container == "frozenset":
        tag_obj = frozenset(tags)
    kw["test_tags"] = tag_obj
    before = None if tag_obj is None else frozenset(tag_obj)
    t0 = datetime.datetime.now(UTC)
    if positional == "all":
        # every argument in the documented positional order
        top.status(*[kw[f] for f in ("test_id", "test_status", "test_tags", "runnable", "file_name", "file_bytes", "eof", "mime_type", "route_code", "timestamp")])
    elif positional:
        tid = kw.pop("test_id")
        st = kw.pop("test_status")
        top.status(tid, st, **kw)
    else:
        top.status(**kw)
    after()  # events parked in a StreamToQueue are delivered (and possibly timestamped) here
    t1 = datetime.datetime.now(UTC)
    mutated = tag_obj is not None and frozenset(tag_obj) != before
    return tag_obj, before, mutated, (t0, t1)


def run_case(tree, seq):
    problems = []
    built = Built()
    top = build(tree, [], built)
    brackets = []
    sent = []
    caller_refs = []
    try:
        top.startTestRun()
        drain(built)
        for spec in seq:
            if spec is RESTART:
                top.stopTestRun()
                drain(built)
                top.startTestRun()
                drain(built)
                sent.append(RESTART)
                continue
            tag_obj, before, mutated, br = send(top, spec, lambda: drain(built))
            brackets.append(br)
            d = dict(spec[0])
            d["test_tags"] = None if spec[1] is None else frozenset(d["test_tags"])
            sent.append(d)
            if mutated:
                problems.append(("caller-mutated", "the caller's test_tags %r became %r during status()" % (sorted(before), sorted(tag_obj))))
            if tag_obj is not None:
                caller_refs.append((tag_obj, before))
        top.stopTestRun()
        drain(built)
    except Exception as e:
        problems.append(("call-raised", "%s: %s" % (type(e).__name__, str(e)[:150])))
        return problems
    for path, sink in built.sinks:
        exp = [("startTestRun",)]
        for d in sent:
            if d is RESTART:
                exp += [("stopTestRun",), ("startTestRun",)]
            else:
                exp.append(("status", transform(path, d)))
        exp.append(("stopTestRun",))
        got = sink.log
        ok = len(got) == len(exp)
        if ok:
            i = -1
            for g, e in zip(got, exp):
                if g[0] != e[0]:
                    ok = False
                    break
                if g[0] != "status":
                    continue
                i += 1
                gd, ed = dict(g[1]), dict(e[1])
                if ed["timestamp"] == "NOW":
                    ts = gd["timestamp"]
                    t0, t1 = brackets[i]
                    if not (isinstance(ts, datetime.datetime) and ts.tzinfo is not None and ts.utcoffset() == datetime.timedelta(0) and t0 <= ts <= t1):
                        problems.append(("timestamp", "missing timestamp filled with %r, expected a tz-aware UTC time within [%s, %s]" % (ts, t0, t1)))
                    gd["timestamp"] = ed["timestamp"] = None
                if gd != ed:
                    ok = False
                    break
        if not ok:
            problems.append(("forwarding", "sink behind %r received %r, expected %r" % (path, _brief(got), _brief(exp))))
        for obj, frozen in sink.refs:
            if frozenset(obj) != frozen:
                problems.append(("alias", "a tag set delivered to the sink behind %r as %r later changed to %r (shared with a sibling/decorator)" % (path, sorted(frozen), sorted(obj))))
            for cobj, _ in caller_refs:
                if obj is cobj and isinstance(obj, set) and any(s[0] == "tag" for s in path):
                    problems.append(("alias", "sink behind %r holds the caller's own mutable tag set although a tagger sits in between" % (path,)))
    for path, counter in built.ffs:
        want = sum(1 for d in sent if d is not RESTART and d["test_status"] in ("fail", "uxsuccess"))
        if len(counter) != want:
            problems.append(("failfast", "fail-fast callback behind %r fired %d times, expected %d" % (path, len(counter), want)))
    for obj, before in caller_refs:
        if frozenset(obj) != before:
            problems.append(("caller-mutated", "the caller's test_tags %r is %r after the run" % (sorted(before), sorted(obj))))
    return problems


def run_reused_set(tree):
    """The producer keeps ONE set object for its tags, changes it between two events and passes it
    again: every sink gets each event with the tags the set held at that moment."""
    problems = []
    built = Built()
    top = build(tree, [], built)
    own = {"t", "x"}
    snaps = []
    try:
        top.startTestRun()
        drain(built)
        for status, change in (("inprogress", None), ("success", "u"), ("fail", "t")):
            if change is not None:
                own.symmetric_difference_update({change})
            top.status(test_id="t", test_status=status, test_tags=own, timestamp=T1)
            drain(built)
            snaps.append(ev(test_status=status, test_tags=frozenset(own)))
        top.stopTestRun()
        drain(built)
    except Exception as e:
        return [("call-raised", "%s: %s" % (type(e).__name__, str(e)[:150]))]
    for path, sink in built.sinks:
        got = [g[1]["test_tags"] for g in sink.log if g[0] == "status"]
        want = [transform(path, d)["test_tags"] for d in snaps]
        if got != want:
            problems.append(("forwarding", "one tag set re-used by the producer for three events (changed in between): the sink behind %r received tags %r, expected %r" % (path, [None if g is None else sorted(g) for g in got], [None if w is None else sorted(w) for w in want])))
    return problems


def _brief(log):
    out = []
    for e in log:
        if e[0] == "status":
            d = e[1]
            out.append(("status", d["test_id"], d["test_status"], None if d["test_tags"] is None else tuple(sorted(d["test_tags"])), d["route_code"], "ts" if d["timestamp"] is not None else None))
        else:
            out.append(e)
    return out


LEAVES = [("sink",), ("ff",), ("sinkT",)]


def wrap_options(child, siblings):
    """All ways to put one decorator level on top of ``child`` (with optional leaf siblings)."""
    out = []
    sibsets = [[child]]
    if siblings >= 1:
        for l in LEAVES:
            sibsets.append([l, child])
            sibsets.append([child, l])
    if siblings >= 2:
        for l1, l2 in itertools.product(LEAVES, repeat=2):
            sibsets.append([l1, child, l2])
    for kids in sibsets:
        out.append(("copy", kids))
        out.append(("tag", "a", kids))
        out.append(("tag", "b", kids))
        out.append(("tag", "c", kids))
        if len(kids) == 1:
            out.append(("tag", "d", kids))
            out.append(("tag", "e", kids))
    out.append(("ts", child))
    out.append(("q", "0", child))
    return out


def trees(tier):
    out = []
    sib_deep = 1 if tier == "quick" else 2
    for leaf in LEAVES:
        d1 = wrap_options(leaf, sib_deep)
        out.extend(d1)
        for t1 in d1:
            d2 = wrap_options(t1, 1)
            out.extend(d2)
            for t2 in d2:
                # depth 3: quick keeps inner levels sibling-free to bound the count
                if tier == "quick" and _has_siblings(t2):
                    continue
                out.extend(wrap_options(t2, 1))
    # several StreamToQueue objects with different routing codes in one tree (siblings and nested)
    out.append(("copy", [("q", "0", ("sink",)), ("q", "1", ("sink",))]))
    out.append(("copy", [("q", "1", ("tag", "a", [("sink",)])), ("ts", ("q", "0", ("sink",)))]))
    out.append(("q", "0", ("q", "1", ("sink",))))
    out.append(("copy", [("q", "0", ("q", "1", ("sink",))), ("q", "1", ("q", "0", ("sink",)))]))
    # dedupe
    seen, uniq = set(), []
    for t in out:
        k = repr(t)
        if k not in seen:
            seen.add(k)
            uniq.append(t)
    return uniq


def _has_siblings(t):
    if t[0] in ("copy",):
        return len(t[1]) > 1 or any(_has_siblings(c) for c in t[1])
    if t[0] == "tag":
        return len(t[2]) > 1 or any(_has_siblings(c) for c in t[2])
    if t[0] == "ts":
        return _has_siblings(t[1])
    if t[0] == "q":
        return _has_siblings(t[2])
    return False


def sequences(tier):
    n = 2 if tier == "quick" else 3
    out = [()]
    idx = range(len(EVENTS))
    for k in range(1, n + 1):
        if k <= 2:
            out.extend(itertools.product(idx, repeat=k))
        else:
            # length 3: all triples over the tag-bearing and timestamp-less events
            sub = [1, 2, 4, 5, 12]
            out.extend(itertools.product(sub, repeat=3))
    # the same tree used for a second (third) run
    few = [1, 4, 6]
    out.append((-1,))
    for i in few:
        out.extend([(i, -1), (-1, i)])
        for j in few:
            out.append((i, -1, j))
    out.append((1, -1, -1, 2))
    return out


NSHARDS = 64


def shards(tier):
    return list(range(NSHARDS))


def run_shard(shard, tier, seed):
    res = ShardResult()
    ts = trees(tier)
    seqs = sequences(tier)
    for tree in ts[shard::NSHARDS]:
        res.states += 1
        res.evaluations += 1
        for clause, msg in run_reused_set(tree):
            res.violation("C11/%s" % clause, "%s [tree %r]" % (msg, tree), {"tree": tree, "reused_set": True})
        for seq in seqs:
            problems = run_case(tree, [_spec(i) for i in seq])
            res.evaluations += 1
            res.transitions += len(seq) + 2
            if seq:
                res.distinct.add(obs_hash((repr(tree), seq)))
            for clause, msg in problems:
                fp = "C11/%s" % clause
                if clause in ("caller-mutated", "alias") or (clause == "call-raised" and "frozenset" in msg):
                    if "tag" in repr(tree):
                        fp = "C11/StreamTagger-mutates-or-aliases-tag-set"
                res.violation(fp, "%s [tree %r events %r]" % (msg, tree, list(seq)), {"tree": tree, "events": list(seq)})
    res.traces_validated = res.evaluations
    if ts[shard::NSHARDS]:
        res.add_sample({"tree": repr(ts[shard::NSHARDS][0]), "events": [repr(EVENTS[1][0]["test_status"]), repr(EVENTS[4][0]["test_status"])]})
    res.notes["trees_total"] = len(ts)
    res.notes["sequences_per_tree"] = len(seqs)
    return res


def meta(tier):
    return {
        "technique": MANIFEST_INFO["technique"],
        "rule": "states = decorator trees; evaluations = (tree, event sequence) executions on fresh objects; non-trivial = non-empty sequences; distinct = distinct (tree, sequence)",
        "bounds": {"decorator_depth": 3, "leaf_siblings_per_level": "1 (quick; none below the root at depth 3) / 2 at the innermost level (thorough)", "events": len(EVENTS), "sequence_length": 2 if tier == "quick" else 3},
        "assumptions": MANIFEST_INFO["level_note"].split("; "),
    }


def _tuplify(t):
    if isinstance(t, list):
        return tuple(_tuplify(x) if isinstance(x, list) and x and isinstance(x[0], str) else ([_tuplify(y) for y in x] if isinstance(x, list) else x) for x in t)
    return t


def replay(data):
    tree = _tuplify(data["tree"])
    if data.get("reused_set"):
        problems = run_reused_set(tree)
        return (not problems), "tree=%r problems=%r" % (tree, problems)
    problems = run_case(tree, [_spec(i) for i in data["events"]])
    return (not problems), "tree=%r events=%r problems=%r" % (tree, data["events"], problems)
