"""C10 — stream consumers account for every test exactly once."""

import datetime
import itertools

from testtools.testresult.real import StreamSummary, StreamToDict, StreamToExtendedDecorator

from vt import recorders as rec
from vt.explore.bfs import bfs
from vt.runner import ShardResult
from vt.snapshot import snapshot

PROPERTY = "C10"

MANIFEST_INFO = {
    "engine": "B",
    "design_ref": "DESIGN.md section 5, C10",
    "technique": "explicit-state BFS over status-event histories (bracketed by startTestRun/stopTestRun, second runs included) on real StreamToDict / StreamSummary / StreamToExtendedDecorator objects, per-(id, route) record-table reference model compared after every event",
    "level_text": "Every sequence of up to 4-5 (quick) / 5-7 (thorough) events from a 38-event alphabet (2 test ids + id-less, 2 route codes, all 8 statuses incl. repeated finals and events after a final, tag replacement, 2 file names with empty/non-empty chunks and mime types, present/absent timestamps), with run start/stop in any position, is fed to fresh real consumers; each report (on_test dict, StreamSummary attributes, calls on the wrapped extended result) is compared with the record-table model at every step. Fixed longer histories add a text attachment whose chunks split one character and 'exists' finals that carry tags and a file chunk themselves.",
    "level_note": "Canonical-state merging on a generic structural snapshot; 'fail' may land in errors or failures (exactly one); a final 'unknown' status is only required to be counted; 'exists' events are not fed to StreamToExtendedDecorator (replay optional per the statement); files consisting only of empty chunks may or may not be reported.",
}

UTC = datetime.timezone.utc
T1 = datetime.datetime(2020, 1, 1, 0, 0, 1, tzinfo=UTC)
T2 = datetime.datetime(2020, 1, 1, 0, 0, 2, tzinfo=UTC)
INTERIM = (None, "inprogress")
FINAL = ("exists", "xfail", "uxsuccess", "success", "fail", "skip", "unknown")


def ev(test_id="a", route_code=None, test_status=None, test_tags=None, file_name=None, file_bytes=None, mime_type=None, timestamp=T1, eof=False):
    return (
        ("test_id", test_id),
        ("test_status", test_status),
        ("test_tags", test_tags),
        ("runnable", True),
        ("file_name", file_name),
        ("file_bytes", file_bytes),
        ("eof", eof),
        ("mime_type", mime_type),
        ("route_code", route_code),
        ("timestamp", timestamp),
    )


def alphabet(with_exists=True):
    A = []
    for tid, rc in (("a", None), ("a", "0"), ("b", None)):
        for st in ("inprogress",) + FINAL:
            if st == "exists" and not with_exists:
                continue
            A.append(ev(tid, rc, st))
    A.append(ev(test_tags=frozenset({"t"})))
    A.append(ev(test_tags=frozenset()))
    A.append(ev(test_tags=frozenset({"u"}), timestamp=T2))
    A.append(ev(test_status="inprogress", test_tags=frozenset({"t"})))
    A.append(ev(file_name="f", file_bytes=b"x", mime_type="text/plain; charset=utf8"))
    A.append(ev(file_name="f", file_bytes=b"y", mime_type=None, eof=True))
    A.append(ev(file_name="f", file_bytes=b""))
    A.append(ev(test_tags=frozenset({"u"}), file_name="f", file_bytes=b""))  # (tags arriving with an empty chunk)
    A.append(ev(file_name="g", file_bytes=b"\xffz", mime_type="application/octet-stream"))
    A.append(ev("b", file_name="f", file_bytes=b"q"))
    A.append(ev(timestamp=T2))
    A.append(ev(timestamp=None))
    A.append(ev(None, test_status="fail"))
    A.append(ev(None, file_name="f", file_bytes=b"x"))
    A.append(ev(test_status="success", test_tags=frozenset({"t"}), file_name="f", file_bytes=b"w", timestamp=T2))
    A.append(ev(test_status="fail", timestamp=None))
    return tuple(A)


class Record:
    def __init__(self, tid, route, ts):
        self.id = tid
        self.route = route
        self.status = "unknown"
        self.tags = frozenset()
        self.first = ts
        self.last = None
        self.files = []  # [name, mime, [chunks]] in arrival order of first non-empty chunk
        self.empty_files = set()

    def view(self):
        return (
            self.id,
            self.status,
            tuple(sorted(self.tags)),
            self.first,
            self.last,
            tuple((n, m, b"".join(c)) for n, m, c in self.files),
        )


class Model:
    def __init__(self):
        self.in_run = False
        self.records = {}
        self.runs = 0
        # per-run accounting
        self.reported = []

    def key(self):
        return (self.in_run, tuple(sorted((repr(k), r.view()) for k, r in self.records.items())))

    def event(self, e):
        """-> list of reported Record (0 or 1)"""
        d = dict(e)
        if d["test_id"] is None:
            return []
        k = (d["test_id"], d["route_code"])
        r = self.records.get(k)
        if r is None:
            r = self.records[k] = Record(d["test_id"], d["route_code"], d["timestamp"])
        if d["test_status"] is not None:
            r.status = d["test_status"]
        r.last = d["timestamp"]
        if d["file_name"] is not None:
            if d["file_bytes"]:
                for f in r.files:
                    if f[0] == d["file_name"]:
                        f[2].append(d["file_bytes"])
                        break
                else:
                    r.files.append([d["file_name"], d["mime_type"], [d["file_bytes"]]])
            else:
                r.empty_files.add(d["file_name"])
        if d["test_tags"] is not None:
            r.tags = frozenset(d["test_tags"])
        if d["test_status"] not in INTERIM:
            del self.records[k]
            return [r]
        return []

    def stop(self):
        out = list(self.records.values())
        for r in out:
            r.last = None
        self.records = {}
        return out


def canonical_mime(m):
    # what "no mime type" and the two spellings mean after parsing
    from testtools.testresult.real import _make_content_type

    return repr(_make_content_type(m))


def view_of_details(details, allow_empty):
    out = []
    for name, c in details.items():
        data = b"".join(c.iter_bytes())
        if not data and name in allow_empty:
            continue
        out.append((name, repr(c.content_type), data))
    return tuple(out)


def expected_details(r):
    return tuple((n, canonical_mime(m), b"".join(c)) for n, m, c in r.files)


class Impl:
    def __init__(self, consumer):
        self.kind = consumer
        self.reports = []
        if consumer == "StreamToDict":
            self.obj = StreamToDict(self.reports.append)
        elif consumer == "StreamSummary":
            self.obj = StreamSummary()
        elif consumer == "StreamToExtendedDecorator":
            self.ext = rec.Ext()
            self.obj = StreamToExtendedDecorator(self.ext)
        else:
            raise AssertionError(consumer)


SUMMARY_LISTS = ("failures", "errors", "skipped", "expectedFailures", "unexpectedSuccesses")


class System:
    def __init__(self, consumer):
        self.consumer = consumer
        self.alphabet = alphabet(with_exists=(consumer != "StreamToExtendedDecorator"))

    def fresh(self):
        m = Model()
        m.summary = {"testsRun": 0, "where": [], "bad": False}
        return Impl(self.consumer), m

    def ops(self, m):
        if not m.in_run:
            return [("startTestRun",)] if m.runs < 2 else []
        return [("stopTestRun",)] + [("status", e) for e in self.alphabet]

    def apply(self, impl, m, op, check):
        problems = []
        reported = []
        at_stop = False
        try:
            if op[0] == "startTestRun":
                m.in_run = True
                m.runs += 1
                m.records = {}
                m.summary = {"testsRun": 0, "where": [], "bad": False}
                impl.obj.startTestRun()
            elif op[0] == "stopTestRun":
                reported = m.stop()
                at_stop = True
                m.in_run = False
                impl.obj.stopTestRun()
            else:
                reported = m.event(op[1])
                # (test_id, test_status and test_tags are passed positionally, the rest by keyword:
                # StreamResult.status documents that order)
                kw = dict(op[1])
                impl.obj.status(kw.pop("test_id"), kw.pop("test_status"), kw.pop("test_tags"), **kw)
        except Exception as e:
            if check:
                problems.append(("call-raised", "%s raised %s: %s" % (op[0], type(e).__name__, e)))
            return problems
        checker = getattr(self, "_check_" + impl.kind)
        p = checker(impl, m, reported, at_stop, check)
        if check:
            problems.extend(p)
        return problems

    # -- StreamToDict ------------------------------------------------------
    def _check_StreamToDict(self, impl, m, reported, at_stop, check):
        problems = []
        got = list(impl.reports)
        del impl.reports[:]
        if not check:
            return problems
        exp = sorted((self._dict_view_exp(r) for r in reported), key=repr)
        gotv = sorted((self._dict_view_got(d, reported) for d in got), key=repr)
        if exp != gotv:
            problems.append(("report", "on_test reported %r, model says %r" % (gotv, exp)))
        return problems

    def _dict_view_exp(self, r):
        return (r.id, r.status, tuple(sorted(r.tags)), (r.first, r.last), expected_details(r))

    def _dict_view_got(self, d, reported):
        allow_empty = set()
        for r in reported:
            if r.id == d["id"]:
                allow_empty |= r.empty_files
        return (
            d["id"],
            d["status"],
            tuple(sorted(d["tags"] or ())),
            tuple(d["timestamps"]),
            view_of_details(d["details"], allow_empty),
        )

    # -- StreamSummary -----------------------------------------------------
    def _check_StreamSummary(self, impl, m, reported, at_stop, check):
        problems = []
        s = m.summary
        for r in reported:
            if r.status == "exists":
                continue
            s["testsRun"] += 1
            incomplete = at_stop or r.status in ("inprogress",)
            if incomplete or r.status == "fail":
                s["bad"] = True
            s["where"].append((r.id, r.status, incomplete))
        if not check:
            return problems
        o = impl.obj
        if o.testsRun != s["testsRun"]:
            problems.append(("testsRun", "testsRun == %r, model says %r" % (o.testsRun, s["testsRun"])))
        lists = {}
        for name in SUMMARY_LISTS:
            lists[name] = [(x[0] if isinstance(x, tuple) else x).id() for x in getattr(o, name)]
        # every counted report lands in exactly the list its status names
        need = {"skip": ("skipped",), "xfail": ("expectedFailures",), "uxsuccess": ("unexpectedSuccesses",), "fail": ("errors", "failures"), "success": ()}
        exp_count = {name: 0 for name in SUMMARY_LISTS}
        flexible = 0  # reports that may be in errors or failures
        loose = 0  # final 'unknown': counted, placement not prescribed
        for tid, status, incomplete in s["where"]:
            if incomplete:
                flexible += 1
            elif status == "unknown":
                loose += 1
            elif status == "fail":
                flexible += 1
            else:
                for name in need[status]:
                    exp_count[name] += 1
        total_flex = len(lists["errors"]) + len(lists["failures"])
        for name in ("skipped", "expectedFailures", "unexpectedSuccesses"):
            if len(lists[name]) != exp_count[name] and not (loose and exp_count[name] <= len(lists[name]) <= exp_count[name] + loose):
                problems.append(("buckets", "%s holds %r, model expects %d entries (reports %r)" % (name, lists[name], exp_count[name], s["where"])))
        if not (flexible <= total_flex <= flexible + loose):
            problems.append(("buckets", "errors+failures hold %r, model expects %d entries (reports %r)" % (lists["errors"] + lists["failures"], flexible, s["where"])))
        if s["bad"] and o.wasSuccessful():
            problems.append(("wasSuccessful", "a failed or incomplete test was reported but wasSuccessful() is True (reports %r)" % (s["where"],)))
        return problems

    # -- StreamToExtendedDecorator ------------------------------------------
    def _check_StreamToExtendedDecorator(self, impl, m, reported, at_stop, check):
        problems = []
        log = list(impl.ext.log)
        del impl.ext.log[:]
        if not check:
            return problems
        # the wrapped result's run bracket encloses every test it is told about (incomplete tests
        # are reported BEFORE its stopTestRun: a TextTestResult prints its summary there)
        names = [e[0] for e in log]
        if "stopTestRun" in names and names.index("stopTestRun") != len(names) - 1:
            problems.append(("run-bracket", "wrapped result received %r after its stopTestRun" % (names[names.index("stopTestRun") + 1 :],)))
        if "startTestRun" in names and names.index("startTestRun") != 0:
            problems.append(("run-bracket", "wrapped result received %r before its startTestRun" % (names[: names.index("startTestRun")],)))
        # split the log into per-test blocks (startTest .. stopTest)
        blocks = []
        cur = None
        pre = []
        for e in log:
            if e[0] in ("startTestRun", "stopTestRun"):
                continue
            if e[0] == "startTest":
                cur = {"id": e[1].id(), "pre": pre, "in": [], "outcomes": []}
                pre = []
                blocks.append(cur)
            elif e[0] == "stopTest":
                cur = None
            elif cur is None:
                pre.append(e)
            else:
                cur["in"].append(e)
                if e[0] in rec.OUTCOMES:
                    cur["outcomes"].append(e)
        exp = [self._ste_exp(r, at_stop) for r in reported]
        got = [self._ste_got(b, reported) for b in blocks]
        if len(exp) != len(got):
            problems.append(("report", "wrapped result saw tests %r, model says %r" % (got, exp)))
            return problems
        best = None
        for perm in itertools.permutations(range(len(got))):
            ps = []
            for e, gi in zip(exp, perm):
                ps.extend(self._ste_match(e, got[gi]))
            if best is None or len(ps) < len(best):
                best = ps
            if not ps:
                break
        problems.extend(best or [])
        return problems

    def _ste_match(self, e, g):
        eid, eouts, etags, efirst, elast, edet = e
        gid, gout, gtags, gtimes, gdet = g
        if gid != eid or gout not in eouts or gtags != etags or gdet != edet:
            return [("report", "wrapped result saw %r, model says %r" % (g, e))]
        want_times = [t for t in (efirst, elast) if t is not None]
        if gtimes != want_times:
            return [("timestamps", "wrapped result got time() calls %r for %r, model says %r" % (gtimes, gid, want_times))]
        return []

    def _ste_exp(self, r, at_stop):
        mapping = {
            "success": ("addSuccess",),
            "skip": ("addSkip",),
            "fail": ("addFailure", "addError"),
            "xfail": ("addExpectedFailure",),
            "uxsuccess": ("addUnexpectedSuccess",),
            "unknown": ("addFailure", "addError"),
            "inprogress": ("addFailure", "addError"),
        }
        return (r.id, mapping[r.status], tuple(sorted(r.tags)), r.first, r.last, expected_details(r))

    def _ste_got(self, b, reported):
        allow_empty = set()
        for r in reported:
            if r.id == b["id"]:
                allow_empty |= r.empty_files
        tags = set()
        for e in b["pre"]:
            if e[0] == "tags":
                tags |= set(e[1])
                tags -= set(e[2])
        times = [e[1] for e in b["pre"] if e[0] == "time"]
        out = None
        det = ()
        for e in b["in"]:
            if e[0] == "tags" and not b["outcomes"]:
                tags |= set(e[1])
                tags -= set(e[2])
            if e[0] == "time" and (out is None):
                times.append(e[1])
            if e[0] in rec.OUTCOMES and out is None:
                out = e[0]
                details = e[3] if len(e) > 3 else None
                det = view_of_details(details or {}, allow_empty)
        if len(b["outcomes"]) != 1:
            out = "outcomes=%r" % ([e[0] for e in b["outcomes"]],)
        return (b["id"], out, tuple(sorted(tags)), times, det)

    def canon(self, impl, m):
        try:
            return (m.key(), snapshot(impl.obj))
        except Exception:
            return None

    def fingerprint(self, clause, hist, msg):
        return "C10/%s/%s" % (clause, self.consumer)

    def replay_data(self, hist):
        return {"consumer": self.consumer, "history": [_enc(o) for o in hist]}


def _enc(op):
    if op[0] != "status":
        return [op[0]]
    d = {}
    for k, v in op[1]:
        if isinstance(v, (set, frozenset)):
            v = {"set": sorted(v)}
        elif isinstance(v, bytes):
            v = {"bytes": v.hex()}
        elif isinstance(v, datetime.datetime):
            v = {"ts": 1 if v == T1 else 2}
        d[k] = v
    return ["status", d]


def _dec(o):
    if o[0] != "status":
        return (o[0],)
    items = []
    for k in rec.Stream.FIELDS:
        v = o[1][k]
        if isinstance(v, dict):
            if "set" in v:
                v = frozenset(v["set"])
            elif "bytes" in v:
                v = bytes.fromhex(v["bytes"])
            elif "ts" in v:
                v = T1 if v["ts"] == 1 else T2
        items.append((k, v))
    return ("status", tuple(items))


DEPTHS = {
    "quick": {"StreamToDict": 6, "StreamSummary": 5, "StreamToExtendedDecorator": 6},
    "thorough": {"StreamToDict": 8, "StreamSummary": 6, "StreamToExtendedDecorator": 8},
}


def fixed_histories(consumer=None):
    """Attachment shapes that would make most prefixes of a free history ill-formed: a text
    attachment whose chunks split one character (every chunk arrives before the final status)."""
    u1 = ev(file_name="u", file_bytes=b"caf\xc3", mime_type="text/plain; charset=utf8")
    u2 = ev(file_name="u", file_bytes=b"\xa9", mime_type="text/plain; charset=utf8", eof=True)
    r1 = ev(file_name="reason", file_bytes=b"pourquoi \xc3", mime_type="text/plain; charset=utf8")
    r2 = ev(file_name="reason", file_bytes=b"\xa9", mime_type="text/plain; charset=utf8", eof=True)
    out = []
    for final in FINAL:
        if final == "exists":
            continue
        out.append([("startTestRun",), ("status", u1), ("status", u2), ("status", ev(test_status=final)), ("stopTestRun",)])
        out.append([("startTestRun",), ("status", ev(test_status="inprogress")), ("status", u1), ("status", u2), ("stopTestRun",)])
    out.append([("startTestRun",), ("status", r1), ("status", r2), ("status", ev(test_status="skip")), ("stopTestRun",)])
    if consumer != "StreamToExtendedDecorator":
        # test enumeration: an 'exists' final that carries tags and a file chunk itself - as a
        # test's only event, after an earlier chunk, and for the same id on another route
        x1 = ev(test_status="exists", test_tags=frozenset({"t"}), file_name="where", file_bytes=b"m.py:10", route_code="0")
        x2 = ev("b", file_name="where", file_bytes=b"m.py:", route_code="0", timestamp=T2)
        x3 = ev("b", test_status="exists", file_name="where", file_bytes=b"20", route_code="0", timestamp=T2)
        x4 = ev(test_status="exists", file_name="where", file_bytes=b"other.py:1", route_code="1", timestamp=T2)
        out.append([("startTestRun",), ("status", x1), ("status", x2), ("status", x3), ("status", x4), ("stopTestRun",)])
    return out


def run_fixed(res):
    for consumer in ("StreamToDict", "StreamSummary", "StreamToExtendedDecorator"):
        for hist in fixed_histories(consumer):
            sysm = System(consumer)
            impl, m = sysm.fresh()
            done = []
            for op in hist:
                done.append(op)
                problems = sysm.apply(impl, m, op, True)
                res.evaluations += 1
                res.transitions += 1
                for clause, msg in problems:
                    res.violation(sysm.fingerprint(clause, done, msg), "%s after history %r" % (msg, done), sysm.replay_data(done))
                if problems:
                    break
            res.traces_validated += 1


def run_main(tier, seed):
    from vt.explore.bfs import pbfs

    res = ShardResult()
    run_fixed(res)
    for consumer in ("StreamToDict", "StreamSummary", "StreamToExtendedDecorator"):
        depth = DEPTHS[tier][consumer]
        pbfs(System(consumer), depth, res, label=consumer, sample_every=1999)
        res.notes["depth_" + consumer] = depth
    return res


def meta(tier):
    return {
        "technique": MANIFEST_INFO["technique"],
        "rule": "BFS; a history of length n has n-1 events after startTestRun; state = (model record table, structural snapshot of the consumer); non-trivial = non-initial; distinct = distinct canonical states",
        "bounds": {"depth_including_startTestRun": DEPTHS[tier], "alphabet_events": len(alphabet()), "runs": 2},
        "assumptions": [
            "startTestRun precedes events (the consumers allocate their table there)",
            "the second timestamp of a report is the timestamp of the event that triggered it (None at stopTestRun)",
            "'fail' may be filed under errors or failures; a final 'unknown' only has to be counted",
        ],
    }


def replay(data):
    sysm = System(data["consumer"])
    impl, m = sysm.fresh()
    ok, out = True, []
    for o in data["history"]:
        op = _dec(o)
        p = sysm.apply(impl, m, op, True)
        out.append("%r -> %r" % (op if op[0] != "status" else {k: v for k, v in op[1] if v not in (None, False)}, p))
        ok = ok and not p
    return ok, "\n".join(out)
