"""C19 — suite utilities preserve the test set: filter keeps chosen ids, sort permutes."""

import io
import itertools
import os
import sys
import tempfile
import types
import unittest

import testtools
from testtools import PlaceHolder
from testtools import run as tt_run
from testtools.testsuite import FixtureSuite, filter_by_ids, iterate_tests, sorted_tests

from vt.explore.chooser import obs_hash
from vt.runner import ShardResult

PROPERTY = "C19"

MANIFEST_INFO = {
    "engine": "E",
    "design_ref": "DESIGN.md section 5, C19",
    "technique": "bounded-exhaustive enumeration of all suite trees up to a node bound (6 suite kinds incl. testtools' FixtureSuite x 4 leaf labels, duplicates included) x all 16 id subsets, checked against a list-of-leaves reference model; testtools.run --list/--load-list driven in-process on a synthetic module for every small tree",
    "level_text": "Every ordered tree with at most 5 (quick) / 6 (thorough) nodes over plain TestSuite, a custom subclass, one with sort_tests, one with an in-place filter_by_ids, one whose filter_by_ids returns a new suite and testtools' own FixtureSuite (each possibly empty), with PlaceHolder and stdlib-TestCase leaves (given their ids afterwards: they compare equal to one another) over three ids (duplicates occur; one id has unittest's import-failure marker in the middle, one ends in a no-break space, which is not a blank an id-list line is stripped of), is built afresh and passed to iterate_tests, to filter_by_ids for every subset of {a,b,c,z} (order, identity and the chain of enclosing suite objects of every surviving leaf are compared; the caller then adds a test of its own to every empty suite the call created, which no later call may see), and to sorted_tests (ValueError iff duplicate ids, otherwise the documented order). For every tree of at most 4 (quick) / 5 (thorough) nodes the two compositions sort-then-filter (what testtools.run discover --load-list does) and filter-then-sort are checked for every subset. For every tree of at most 4 nodes, testtools.run --list and --load-list (every subset, via a scratch file) are run in-process, --load-list also with the program given a module whose load_tests hook returns the tree itself.",
    "level_note": "The reference model is a recursive list of leaves; custom filter_by_ids is a correct in-place implementation; the position of empty custom suites in sorted_tests output is not constrained (they hold no tests).",
}

SUITE_KINDS = ("plain", "custom", "sorting", "filtering", "copying", "fixture")
# (the third id has the text of unittest's import-failure pseudo tests in the middle: a test of a class
# called TestModuleImportFailure is a test like any other)
ID_C = "c.TestModuleImportFailure.test"
# (the second id ends in U+00A0: not one of the ASCII blanks an id-list line is stripped of, so it is part of the id)
ID_B = "b\u00a0"
LEAF_LABELS = (("ph", "a"), ("ph", ID_B), ("ph", ID_C), ("tc", "a"))
SUBSETS = [frozenset(s) for n in range(5) for s in itertools.combinations(("a", ID_B, ID_C, "z"), n)]


class CustomSuite(unittest.TestSuite):
    pass


class SortingSuite(unittest.TestSuite):
    sort_calls = 0

    def sort_tests(self):
        type(self).sort_calls += 1
        # (sorts the list it has, in place; testtools' own FixtureSuite binds a new one)
        self._tests[:] = list(sorted_tests(self, True))


class FilteringSuite(unittest.TestSuite):
    def filter_by_ids(self, test_ids):
        self._tests[:] = [filter_by_ids(t, test_ids) for t in self]
        return self


class CopyingSuite(unittest.TestSuite):
    """Implements the filter_by_ids protocol the other documented way: returns a NEW suite and
    leaves itself untouched."""

    def filter_by_ids(self, test_ids):
        new = CopyingSuite([filter_by_ids(t, test_ids) for t in self])
        new._vt_origin = getattr(self, "_vt_origin", self)
        return new


RAN = []


class _NullFixture:
    def setUp(self):
        pass

    def cleanUp(self):
        pass


def _fixture_suite():
    """testtools' own self-sorting custom suite."""
    return FixtureSuite(_NullFixture(), [])



class LoggingPlaceHolder(PlaceHolder):
    def run(self, result=None):
        RAN.append(self.id())
        return PlaceHolder.run(self, result)


class _TC(unittest.TestCase):
    """A stdlib TestCase given its id afterwards (as clone_test_with_new_id and scenario multipliers
    do): such copies have their own ids, yet compare - and hash - equal to one another."""

    _vt_id = "a"

    def test_x(self):
        RAN.append(self.id())

    def id(self):
        return self._vt_id


SUITE_CLASSES = {"plain": unittest.TestSuite, "custom": CustomSuite, "sorting": SortingSuite, "filtering": FilteringSuite, "copying": CopyingSuite, "fixture": _fixture_suite}


def gen_shapes(n):
    """All ordered forests with exactly n nodes, as nested tuples of children."""
    # a tree with n nodes: root + forest of n-1 nodes
    if n == 0:
        yield ()
        return
    for k in range(1, n + 1):
        # first tree has k nodes, rest forest has n-k nodes
        for first in gen_tree(k):
            for rest in gen_shapes(n - k):
                yield (first,) + rest


def gen_tree(n):
    for forest in gen_shapes(n - 1):
        yield forest  # a tree is identified with the forest of its children


def labelings(shape, is_root=True):
    """Yield labelled trees: ('S', kind, children) or ('L', lk, id).  Nodes without children may be a leaf or an empty suite."""
    if not shape:
        if not is_root:
            for lk, tid in LEAF_LABELS:
                yield ("L", lk, tid)
        else:
            yield ("L", "ph", "a")
        for kind in SUITE_KINDS:
            yield ("S", kind, ())
        return
    child_options = [list(labelings(c, False)) for c in shape]
    for kind in SUITE_KINDS:
        for combo in itertools.product(*child_options):
            yield ("S", kind, tuple(combo))


def build(tree, path=(), index=None):
    """-> (object, leaves list [(leaf obj, id, chain of suite objs)])"""
    if tree[0] == "L":
        if tree[1] == "ph":
            leaf = LoggingPlaceHolder(tree[2])
        else:
            leaf = _TC("test_x")
            leaf._vt_id = tree[2]
        return leaf, [(leaf, tree[2], path)]
    suite = SUITE_CLASSES[tree[1]]()
    leaves = []
    for c in tree[2]:
        obj, ls = build(c, path + (suite,))
        suite.addTest(obj)
        leaves.extend(ls)
    return suite, leaves


def chains_of(obj, path=()):
    """[(leaf, chain)] of a built/filtered object, left to right."""
    try:
        it = iter(obj)
    except TypeError:
        return [(obj, path)]
    out = []
    for c in it:
        out.extend(chains_of(c, path + (obj,)))
    return out


def model_sorted_leaves(tree):
    """Leaf ids in the documented sorted order (None if a TypeError-free order is undefined)."""

    def flatten(node, unpack_outer=False):
        if node[0] == "L":
            return [(node[2], [node[2]])]
        if node[1] == "plain" or unpack_outer:
            out = []
            for c in node[2]:
                out.extend(flatten(c))
            return out
        ids = leaf_ids(node)
        key = ids[0] if ids else None
        if node[1] in ("sorting", "fixture"):
            inner = flatten(node, unpack_outer=True)
            inner.sort(key=lambda kv: (kv[0] is not None, kv[0] or ""))
            ids = [i for _, l in inner for i in l]
        return [(key, ids)]

    items = flatten(tree)
    items.sort(key=lambda kv: (kv[0] is not None, kv[0] or ""))
    return [i for _, l in items for i in l]


def leaf_ids(tree):
    if tree[0] == "L":
        return [tree[2]]
    out = []
    for c in tree[2]:
        out.extend(leaf_ids(c))
    return out


SENTINEL = LoggingPlaceHolder("sentinel-added-by-the-caller")


def _suites_of(obj, acc):
    try:
        it = list(iter(obj))
    except TypeError:
        return acc
    acc.append(obj)
    for c in it:
        _suites_of(c, acc)
    return acc


def use_replacements(out, originals):
    """The caller puts a test of its own into every empty suite filter_by_ids created (the
    docstring promises a NEW TestSuite for a deselected test): later calls must not see it."""
    for s in _suites_of(out, []):
        if type(s) is unittest.TestSuite and id(s) not in originals and s.countTestCases() == 0:
            s.addTest(SENTINEL)


def _tid(t):
    return t.id() if hasattr(t, "id") else repr(t)


def check_tree(tree, res, with_run, with_comp=True):
    problems = []
    # iterate_tests
    obj, leaves = build(tree)
    got = list(iterate_tests(obj))
    if [id(x) for x in got] != [id(l[0]) for l in leaves]:
        problems.append(("iterate", "iterate_tests yielded %r, leaves are %r" % ([_tid(t) for t in got], [l[1] for l in leaves])))
    res.evaluations += 1
    # filter_by_ids for every subset
    for S in SUBSETS:
        obj, leaves = build(tree)
        originals = {id(x) for x in _suites_of(obj, [])}
        try:
            out = filter_by_ids(obj, S)
        except Exception as e:
            problems.append(("filter", "filter_by_ids(%r) raised %s: %s" % (sorted(S), type(e).__name__, e)))
            continue
        res.evaluations += 1
        want = [(l[0], l[2]) for l in leaves if l[1] in S]
        have = chains_of(out)
        use_replacements(out, originals)
        if [id(x[0]) for x in have] != [id(x[0]) for x in want]:
            problems.append(("filter", "filter_by_ids(%r) left %r, expected %r" % (sorted(S), [_tid(x[0]) for x in have], [_tid(x[0]) for x in want])))
        else:
            for (leaf, chain), (_, wchain) in zip(have, want):
                if [id(getattr(c, "_vt_origin", c)) for c in chain] != [id(c) for c in wchain]:
                    problems.append(("filter-grouping", "filter_by_ids(%r): leaf %r now under %r, was under %r" % (sorted(S), leaf.id(), chain, wchain)))
                    break
    # sorted_tests
    obj, leaves = build(tree)
    ids = [l[1] for l in leaves]
    dup = len(set(ids)) != len(ids)
    try:
        out = sorted_tests(obj)
        outcome = ("ok", [_tid(t) for t in iterate_tests(out)], [id(t) for t in iterate_tests(out)])
    except ValueError as e:
        outcome = ("ValueError",)
    except Exception as e:
        outcome = ("raised", type(e).__name__, str(e))
    res.evaluations += 1
    if dup:
        if outcome[0] != "ValueError":
            problems.append(("sort-duplicates", "duplicate ids %r but sorted_tests gave %r" % (ids, outcome[:2])))
    else:
        if outcome[0] == "ValueError":
            problems.append(("sort-duplicates", "ids %r are unique but sorted_tests raised ValueError" % (ids,)))
        elif outcome[0] == "raised":
            clause = "sort-raised"
            problems.append((clause, "sorted_tests raised %s: %s" % (outcome[1], outcome[2])))
        else:
            want = model_sorted_leaves(tree)
            if outcome[1] != want:
                problems.append(("sort-order", "sorted_tests gave %r, documented order is %r" % (outcome[1], want)))
            if sorted(outcome[2]) != sorted(id(l[0]) for l in leaves):
                problems.append(("sort-set", "sorted_tests changed the set of test objects"))
    # compositions (testtools.run discover --load-list sorts first and filters afterwards)
    if with_comp and not dup and outcome[0] == "ok":
        want_sorted = model_sorted_leaves(tree)
        for S in SUBSETS:
            obj, leaves = build(tree)
            try:
                out = filter_by_ids(sorted_tests(obj), S)
                have = [_tid(t) for t in iterate_tests(out)]
            except Exception as e:
                problems.append(("sort-then-filter", "filter_by_ids(sorted_tests(suite), %r) raised %s: %s" % (sorted(S), type(e).__name__, e)))
                continue
            res.evaluations += 1
            if have != [i for i in want_sorted if i in S]:
                problems.append(("sort-then-filter", "filter_by_ids(sorted_tests(suite), %r) left %r, expected %r" % (sorted(S), have, [i for i in want_sorted if i in S])))
    for S in SUBSETS if with_comp else ():
        ftree = model_filter(tree, S)
        fids = leaf_ids(ftree)
        obj, leaves = build(tree)
        try:
            out = sorted_tests(filter_by_ids(obj, S))
            have = ("ok", [_tid(t) for t in iterate_tests(out)])
        except ValueError:
            have = ("ValueError",)
        except Exception as e:
            have = ("raised", type(e).__name__, str(e))
        res.evaluations += 1
        if len(set(fids)) != len(fids):
            want = ("ValueError",)
        else:
            want = ("ok", model_sorted_leaves(ftree))
        if have != want:
            if have[0] == "raised" and "TypeError" in have[1] and _has_empty_custom(ftree):
                clause = "sort-raised"
            else:
                clause = "filter-then-sort"
            problems.append((clause, "sorted_tests(filter_by_ids(suite, %r)) gave %r, expected %r" % (sorted(S), have, want)))
    if with_run and tree[0] == "S":
        problems.extend(check_run(tree, res))
    return problems


def model_filter(tree, S):
    if tree[0] == "L":
        return tree if tree[2] in S else ("S", "plain", ())
    return ("S", tree[1], tuple(model_filter(c, S) for c in tree[2]))


_MOD = types.ModuleType("vt_synth_c19")
sys.modules["vt_synth_c19"] = _MOD


def run_program(args):
    out = io.StringIO()
    try:
        tt_run.main(["prog"] + args + ["vt_synth_c19.test_suite"], out)
        code = None
    except SystemExit as e:
        code = e.code
    except Exception as e:
        code = "raised %s: %s" % (type(e).__name__, e)
    return code, out.getvalue()


def run_program_module(args):
    """The program given a module (as a project's own test runner script does): the tests are what
    the module's load_tests hook returns, as it returns them."""
    from functools import partial

    out = io.StringIO()
    try:
        tt_run.TestProgram(module=_MOD, argv=["prog"] + args, testRunner=partial(tt_run.TestToolsTestRunner, stdout=out), stdout=out)
        code = None
    except SystemExit as e:
        code = e.code
    except Exception as e:
        code = "raised %s: %s" % (type(e).__name__, e)
    return code, out.getvalue()


def check_run(tree, res):
    problems = []
    holder = {}

    def test_suite():
        obj, leaves = build(tree)
        holder["leaves"] = leaves
        return obj

    _MOD.test_suite = test_suite
    code, text = run_program(["--list"])
    res.evaluations += 1
    ids = [l[1] for l in holder["leaves"]]
    if text != "".join(i + "\n" for i in ids):
        # exactly one line per id (a consumer reads a blank line as the id "")
        problems.append(("run-list", "--list printed %r, iterate_tests ids are %r" % (text, ids)))
    scratch = tempfile.mkdtemp(prefix="vt-c19-")
    try:
        for S, ending in [(S, "\n") for S in SUBSETS] + [(S, "\r\n") for S in SUBSETS[1:6]] + [(S, " \t\n") for S in SUBSETS[1:4]]:
            path = os.path.join(scratch, "ids")
            # one id per line; CRLF files and ids padded with blanks are read the same way
            with open(path, "w", newline="", encoding="utf-8") as f:
                for i in sorted(S):
                    f.write(i + ending)
            del RAN[:]
            code, text = run_program(["--load-list", path])
            res.evaluations += 1
            want = [i for i in ids if i in S]
            if RAN != want:
                problems.append(("run-load-list", "--load-list %r ran %r, expected %r" % (sorted(S), list(RAN), want)))
            if code not in (False, 0):
                problems.append(("run-exit", "--load-list %r exit status %r although all tests pass" % (sorted(S), code)))
            if ending == "\n":
                _MOD.load_tests = lambda loader, standard_tests, pattern: test_suite()
                try:
                    del RAN[:]
                    code, text = run_program_module(["--load-list", path])
                finally:
                    del _MOD.load_tests
                res.evaluations += 1
                if RAN != want or code not in (False, 0):
                    problems.append(("run-load-list", "TestProgram(module=<load_tests returns the tree>, --load-list %r) ran %r (exit status %r), expected %r" % (sorted(S), list(RAN), code, want)))
    finally:
        try:
            os.remove(os.path.join(scratch, "ids"))
        except OSError:
            pass
        os.rmdir(scratch)
    return problems


def all_trees(max_nodes):
    for n in range(1, max_nodes + 1):
        for shape in gen_tree(n):
            for t in labelings(shape):
                yield n, t


NSHARDS = 64


def shards(tier):
    return list(range(NSHARDS))


def run_shard(shard, tier, seed):
    res = ShardResult()
    max_nodes = 5 if tier == "quick" else 6
    run_nodes = 3 if tier == "quick" else 4
    comp_nodes = 4 if tier == "quick" else 5
    i = -1
    for n, tree in all_trees(max_nodes):
        i += 1
        if i % NSHARDS != shard:
            continue
        problems = check_tree(tree, res, with_run=(n <= run_nodes), with_comp=(n <= comp_nodes))
        res.states += 1
        res.transitions += n
        res.traces_validated += 1
        if n >= 2:
            res.distinct.add(obs_hash(tree))
        if res.states % 397 == 0:
            res.add_sample({"tree": repr(tree)})
        for clause, msg in problems:
            fp = "C19/%s" % clause
            if clause == "sort-raised" and "TypeError" in msg and _has_empty_custom(tree):
                fp = "C19/sort-raised/empty-custom-suite"
            res.violation(fp, "%s [tree %r]" % (msg, tree), {"tree": _enc(tree)})
    if not res.samples:
        res.add_sample({"tree": "('S', 'plain', (('L', 'ph', 'a'),))"})
    res.notes["max_nodes"] = max_nodes
    return res


def _has_empty_custom(tree):
    if tree[0] == "L":
        return False
    if tree[1] != "plain" and not leaf_ids(tree):
        return True
    return any(_has_empty_custom(c) for c in tree[2])


def _enc(t):
    if t[0] == "L":
        return list(t)
    return ["S", t[1], [_enc(c) for c in t[2]]]


def _dec(t):
    if t[0] == "L":
        return tuple(t)
    return ("S", t[1], tuple(_dec(c) for c in t[2]))


def meta(tier):
    return {
        "technique": MANIFEST_INFO["technique"],
        "rule": "every labelled ordered tree with <= N nodes (a childless node is a leaf or an empty suite of each kind); per tree: iterate_tests, filter_by_ids for 16 subsets, sorted_tests, for trees up to composition_max_nodes also filter_by_ids(sorted_tests(t), S) and sorted_tests(filter_by_ids(t, S)) for 16 subsets, and for small trees testtools.run --list and --load-list for 16 subsets; states = trees, evaluations = API calls checked; non-trivial = trees with >= 2 nodes",
        "bounds": {"max_nodes": 5 if tier == "quick" else 6, "run_max_nodes": 3 if tier == "quick" else 4, "composition_max_nodes": 4 if tier == "quick" else 5, "suite_kinds": list(SUITE_KINDS), "leaf_labels": [list(l) for l in LEAF_LABELS], "id_subsets": 16},
        "assumptions": ["custom filter_by_ids implementations are correct and filter in place", "ids are short strings"],
    }


def replay(data):
    tree = _dec(data["tree"])
    res = ShardResult()
    problems = check_tree(tree, res, with_run=True)
    return (not problems), "tree=%r\nproblems=%r" % (tree, problems)
