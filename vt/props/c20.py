"""C20 — Deferred matchers classify fired/failed/unfired without firing anything."""

import gc

from twisted.internet import defer
from twisted.python.failure import Failure

import testtools
from testtools import matchers as M
from testtools.twistedsupport import SynchronousDeferredRunTest, failed, has_no_result, succeeded
from testtools.twistedsupport._deferred import DeferredNotFired, extract_result

from vt import proggen as pg
from vt import recorders as rec
from vt.explore.bfs import bfs
from vt.explore.chooser import explore, obs_hash
from vt.props import c01
from vt.runner import ShardResult

PROPERTY = "C20"

try:
    from twisted.logger import globalLogBeginner, globalLogPublisher

    globalLogBeginner.beginLoggingTo([lambda event: None], redirectStandardIO=False, discardBuffer=True)
except Exception:  # pragma: no cover
    globalLogPublisher = None

MANIFEST_INFO = {
    "engine": "B",
    "design_ref": "DESIGN.md section 5, C20",
    "technique": "explicit-state BFS over histories of callback/errback/addCallback/match/extract_result operations on real twisted Deferreds (rebuilt by replay), abstract Deferred state machine as reference; exactly-one classification checked on three fresh replays per state; unhandled-error logging observed after dropping the Deferred; SynchronousDeferredRunTest compared differentially with the plain RunTest over generated programs",
    "level_text": "All histories of <= 6 (quick) / 8 (thorough) operations over 7 firings (None, 0, 'x', a value that compares equal to everything, an exception instance as the value, a callback returning an already-fired Deferred, a callback returning an unfired Deferred that fires later), 3 failures (one an IndexError subclass, one a cleaned Failure), 3 callback shapes, has_no_result / succeeded(m) / failed(m) for 4 inner matchers and extract_result (called with Deferred debugging switched on) are applied to a fresh real Deferred; every verdict is compared with the model, `called` is compared before and after each match, the value later callbacks see is compared with the model's, and a failure inspected by succeeded()/failed() must not be logged as unhandled when the Deferred is dropped. For every generated program with <= 2 deviating stages the result log of SynchronousDeferredRunTest on stages returning already-fired Deferreds equals that of RunTest on the plain stages (cleanups with keyword arguments named fn, result, function and f included); one canned already-fired Deferred returned by two tests run one after the other is reported as error-then-success / success-success.",
    "level_note": "CPython reference counting makes 'dropped' deterministic; inspecting a failure consumes it (the Deferred then holds None), as the 'marked handled' clause implies.",
}


class ErrA(Exception):
    pass


class ErrB(IndexError):
    """(a LookupError from the code under test - not something testtools' own bookkeeping raised)"""


def _transform(x):
    return ("t", x)


def _raiser(x):
    raise ErrB("from callback")


def _identity(x):
    return x


CALLBACKS = {"identity": _identity, "transform": _transform, "raiser": _raiser}
class _Any:
    """Compares equal to everything (unittest.mock.ANY does): still a result like any other."""

    def __eq__(self, other):
        return True

    def __ne__(self, other):
        return False

    __hash__ = None

    def __repr__(self):
        return "<ANY>"


ANY = _Any()
_EXC_VALUE = ValueError("a value, not a failure")  # (d.callback(exc): fired with an exception INSTANCE as its value)
FIRE_VALUES = {"None": lambda: None, "0": lambda: 0, "x": lambda: "x", "nested": lambda: "outer", "any": lambda: ANY, "exc": lambda: _EXC_VALUE}
FIRE_MODEL = {"None": None, "0": 0, "x": "x", "nested": "outer", "any": ANY, "exc": _EXC_VALUE}


def _to_nested(_):
    # a callback returning an already-fired Deferred: the outer result becomes the nested one
    return defer.succeed("n")
INNER = {
    "Always": (M.Always, lambda kind, v: True),
    "Never": (M.Never, lambda kind, v: False),
    "Equals('x')": (lambda: M.Equals("x"), lambda kind, v: kind == "ok" and v == "x"),
    "IsErrA": (lambda: M.AfterPreprocessing(lambda f: getattr(f, "value", None), M.IsInstance(ErrA)), lambda kind, v: kind == "err" and v == "ErrA"),
}

OPS = (
    [("cb", k) for k in FIRE_VALUES]
    + [("cb_wait_inner",), ("fire_inner",)]
    + [("eb", "ErrA"), ("eb", "ErrB"), ("eb", "ErrA_cleaned")]
    + [("addCallback", k) for k in CALLBACKS]
    + [("match", "no_result")]
    + [("match", "succeeded", k) for k in INNER]
    + [("match", "failed", k) for k in INNER]
    + [("extract",)]
)


class Model:
    def __init__(self):
        self.fired = False
        self.kind = "none"  # none | ok | err
        self.value = None
        self.pending = []  # model callbacks registered while unfired
        self.waiting = False  # called, but chained on an inner Deferred that has not fired yet
        self.inspected = False  # a failure now current was inspected by succeeded()/failed()

    def key(self):
        return (self.fired, self.waiting, self.kind, repr(self.value), tuple(self.pending))

    def apply_cb(self, name):
        if self.kind == "none":
            self.pending.append(name)
            return
        self._run(name)

    def _run(self, name):
        if name in ("identity", "capture"):
            return
        if name == "consume":  # extract_result: both paths return None; matchers' addErrback(lambda _: None)
            self.kind, self.value = "ok", None
            return
        if name == "handle_failure":
            if self.kind == "err":
                self.kind, self.value = "ok", None
            return
        if self.kind != "ok":
            return  # plain callbacks are skipped while the result is a failure
        if name == "to_n":
            self.value = "n"
        elif name == "transform":
            self.value = ("t", self.value)
        elif name == "raiser":
            self.kind, self.value = "err", "ErrB"

    def fire(self, kind, value):
        self.fired = True
        self.kind, self.value = kind, value
        pend, self.pending = self.pending, []
        self.waiting = False
        for i, name in enumerate(pend):
            if name == "wait_inner":
                # the chain stops here until the inner Deferred fires; later callbacks stay pending
                if self.kind == "ok":
                    self.kind, self.value = "none", None
                    self.waiting = True
                    self.pending = pend[i + 1 :]
                    return
                continue
            self._run(name)


class Impl:
    def __init__(self):
        self.d = defer.Deferred()
        self.inner = None


class System:
    stop_at_violation = True

    def fresh(self):
        return Impl(), Model()

    def ops(self, m):
        out = []
        for op in OPS:
            if op[0] in ("cb", "eb", "cb_wait_inner") and m.fired:
                continue
            if op[0] == "fire_inner" and not m.waiting:
                continue
            out.append(op)
        return out

    def apply(self, impl, m, op, check):
        problems = []
        d = impl.d
        name = op[0]
        if name == "cb":
            if op[1] == "nested":
                d.addCallback(_to_nested)
                m.apply_cb("to_n")
            d.callback(FIRE_VALUES[op[1]]())
            m.fire("ok", FIRE_MODEL[op[1]])
        elif name == "cb_wait_inner":
            # fired, but a callback returns a Deferred that has not fired: no result is available yet
            impl.inner = defer.Deferred()
            d.addCallback(lambda _, inner=impl.inner: inner)
            m.pending.append("wait_inner")
            d.callback("outer")
            m.fire("ok", "outer")
        elif name == "fire_inner":
            impl.inner.callback("from-inner")
            m.fire("ok", "from-inner")
        elif name == "eb":
            if op[1] == "ErrA_cleaned":
                # a Failure whose traceback was replaced by Twisted's stand-in objects
                # (cleanFailure(): after pickling, or to break reference cycles)
                from twisted.python.failure import Failure

                try:
                    raise ErrA("boom")
                except ErrA:
                    f = Failure()
                f.cleanFailure()
                d.errback(f)
                m.fire("err", "ErrA")
            else:
                d.errback({"ErrA": ErrA, "ErrB": ErrB}[op[1]]("boom"))
                m.fire("err", op[1])
        elif name == "addCallback":
            d.addCallback(CALLBACKS[op[1]])
            m.apply_cb(op[1])
        elif name == "match":
            called_before = d.called
            if op[1] == "no_result":
                matcher = has_no_result()
                want = m.kind == "none"
                consume = False
            else:
                factory, sem = INNER[op[2]]
                matcher = (succeeded if op[1] == "succeeded" else failed)(factory())
                if op[1] == "succeeded":
                    want = m.kind == "ok" and sem("ok", m.value)
                else:
                    want = m.kind == "err" and sem("err", m.value)
                consume = True
            try:
                mm = matcher.match(d)
                got = mm is None
            except Exception as e:
                got = "raised %s: %s" % (type(e).__name__, e)
            # the matchers' passive capture callbacks; inspecting a failure marks it handled
            if m.kind == "none":
                m.pending.append("capture")
                if consume:
                    pass
            elif consume and m.kind == "err":
                m._run("handle_failure")
            if check:
                if got != want:
                    problems.append(("verdict", "%s on a Deferred in state %s/%r: %r, model says %r" % (_opname(op), _st(m, before=True), None, got, want)))
                if d.called != called_before:
                    problems.append(("fires", "%s changed Deferred.called from %r to %r" % (_opname(op), called_before, d.called)))
                if got is False:
                    for fn in ("describe", "get_details"):
                        try:
                            getattr(mm, fn)()
                        except Exception as e:
                            problems.append(("describe", "%s mismatch.%s() raised %s" % (_opname(op), fn, type(e).__name__)))
        elif name == "extract":
            if m.kind == "ok":
                want = ("value", repr(m.value))
            elif m.kind == "err":
                want = ("raised", m.value)
            else:
                want = ("raised", "DeferredNotFired")
            # (Deferred debugging is switched on for the call - by a DebugTwisted fixture, say - after
            # the Deferred was made without it)
            was = defer.getDebugging()
            defer.setDebugging(True)
            try:
                got = ("value", repr(extract_result(d)))
            except Exception as e:
                got = ("raised", type(e).__name__)
            finally:
                defer.setDebugging(was)
            m.apply_cb("consume")
            if check and got != want:
                problems.append(("extract_result", "extract_result in state %s gave %r, model says %r" % (_st(m), got, want)))
        if check and not problems:
            problems.extend(self.probe(impl, m, op))
        return problems

    def probe(self, impl, m, last_op):
        """Non-destructive checks on *replays* of the same state."""
        return []

    def canon(self, impl, m):
        return m.key()

    def fingerprint(self, clause, hist, msg):
        return "C20/%s" % clause

    def replay_data(self, hist):
        return {"history": [list(o) for o in hist]}


def _opname(op):
    return "%s(%s)" % (op[1], op[2]) if len(op) > 2 else op[1]


def _st(m, before=False):
    return "%s:%r" % (m.kind, m.value)


class Observer:
    def __init__(self):
        self.events = []

    def __call__(self, event):
        if event.get("log_failure") is not None or event.get("isError"):
            self.events.append(event)


def state_checks(sysm, hist, res):
    """Per reachable state: exactly-one classification, later-callback view, handled-ness."""
    problems = []
    # exactly one of the three classifiers matches, on three fresh replays
    verdicts = []
    model = None
    for which in ("no_result", "succeeded", "failed"):
        impl, m = sysm.fresh()
        for op in hist:
            sysm.apply(impl, m, op, False)
        model = m
        matcher = has_no_result() if which == "no_result" else (succeeded(M.Always()) if which == "succeeded" else failed(M.Always()))
        try:
            verdicts.append(matcher.match(impl.d) is None)
        except Exception as e:
            verdicts.append("raised %s" % type(e).__name__)
        res.evaluations += 1
    want = [model.kind == "none", model.kind == "ok", model.kind == "err"]
    if verdicts != want:
        problems.append(("exactly-one", "has_no_result/succeeded(Always)/failed(Always) gave %r in state %s, model says %r" % (verdicts, _st(model), want)))
    # what a callback added afterwards sees
    impl, m = sysm.fresh()
    for op in hist:
        sysm.apply(impl, m, op, False)
    seen = []
    impl.d.addCallbacks(lambda v: seen.append(("ok", v)) or v, lambda f: seen.append(("err", type(f.value).__name__)) or f)
    if m.kind == "none" and m.waiting:
        if seen:
            problems.append(("intact", "a Deferred waiting on an inner Deferred delivered %r to a new callback" % (seen,)))
        else:
            impl.inner.callback("late")
            m.fire("ok", "late")
            if [(k, v) for k, v in seen] != [(m.kind, m.value)]:
                problems.append(("intact", "after matching, the inner Deferred fired with 'late' but a later callback saw %r, model says %r" % (seen, [(m.kind, m.value)])))
    elif m.kind == "none":
        if seen:
            problems.append(("intact", "a Deferred the model says is unfired delivered %r to a new callback" % (seen,)))
        else:
            # still usable: fire it now and see the pending model callbacks applied
            impl.d.callback("late")
            m.fire("ok", "late")
            want_seen = [(m.kind, m.value if m.kind == "ok" else m.value)]
            got_seen = [(k, v) for k, v in seen]
            if got_seen != want_seen:
                problems.append(("intact", "after matching, an unfired Deferred fired with 'late' delivered %r to a later callback, model says %r" % (got_seen, want_seen)))
    else:
        want_seen = [(m.kind, m.value)]
        if [(k, v) for k, v in seen] != want_seen:
            problems.append(("intact", "a callback added afterwards saw %r, model says %r" % (seen, want_seen)))
    # a failure inspected by succeeded()/failed() is not logged as unhandled when dropped
    if globalLogPublisher is not None and any(o[0] == "match" and o[1] in ("succeeded", "failed") for o in hist):
        impl, m = sysm.fresh()
        for op in hist:
            sysm.apply(impl, m, op, False)
        if m.kind != "err":
            obs = Observer()
            globalLogPublisher.addObserver(obs)
            try:
                # reference counting frees the Deferred (and runs its DebugInfo destructor) right here
                impl.d = None
                del impl
            finally:
                globalLogPublisher.removeObserver(obs)
            if obs.events:
                problems.append(("handled", "dropping the Deferred logged %d unhandled error(s) although the model says no failure is pending (history inspected it)" % len(obs.events)))
    return problems


class CheckingSystem(System):
    def __init__(self, res):
        self.res = res
        self._hist = ()

    def probe(self, impl, m, last_op):
        return []


def run_bfs(res, depth, first_ops=None):
    sysm = System()
    # BFS over model states; at every newly reached state run the per-state checks on replays
    import collections

    impl, m = sysm.fresh()
    seen = {m.key()}
    frontier = collections.deque([()])
    res.states += 1
    while frontier:
        hist = frontier.popleft()
        if len(hist) >= depth:
            continue
        impl, m = sysm.fresh()
        for op in hist:
            sysm.apply(impl, m, op, False)
        for op in sysm.ops(m):
            if not hist and first_ops is not None and op not in first_ops:
                continue
            impl, m2 = sysm.fresh()
            for o in hist:
                sysm.apply(impl, m2, o, False)
            problems = sysm.apply(impl, m2, op, True)
            new_hist = hist + (op,)
            res.transitions += 1
            res.traces_validated += 1
            res.evaluations += 1
            if not problems:
                problems = state_checks(sysm, new_hist, res)
            for clause, msg in problems:
                res.violation("C20/%s" % clause, "%s after history %r" % (msg, [list(o) for o in new_hist]), {"history": [list(o) for o in new_hist]})
            if problems:
                continue
            k = m2.key()
            if k in seen:
                continue
            seen.add(k)
            res.states += 1
            res.distinct.add(obs_hash(k))
            if res.states % 97 == 0:
                res.add_sample({"history": [list(o) for o in new_hist], "model_state": _st(m2)})
            frontier.append(new_hist)
    res.notes["depth"] = depth


# ---------------------------------------------------------------------------
# SynchronousDeferredRunTest vs plain RunTest on generated programs

FIRST_ERROR = "first_error"  # what gatherResults / DeferredList(fireOnOneErrback) fail with: a FirstError around the child's failure
pg.FLATTEN[FIRST_ERROR] = (pg.ERROR,)
SYNC_KINDS = (pg.RET, pg.FAIL, pg.ERROR, pg.SKIP, pg.XFAIL, pg.UXSUCCESS, FIRST_ERROR)
_c20_prev_perform = pg.perform


def _perform(case, ctx, stage, kind):
    if kind == FIRST_ERROR:
        marker = "%s!%s" % (stage, kind)
        ctx.raised.append((stage, kind, marker))
        ctx.xlog.append(("raise", stage, kind))
        try:
            case.fail(marker)  # (the child went wrong with an assertion: the FirstError is an error all the same)
        except case.failureException:
            raise defer.FirstError(Failure(), 0)
    return _c20_prev_perform(case, ctx, stage, kind)


class AppDeferred(defer.Deferred):
    """An application's own Deferred subclass (as DeferredList / gatherResults results are)."""


def _wrap(fn, subclass=False):
    def wrapped(*a, **kw):
        try:
            r = fn(*a, **kw)
        except Exception:
            if subclass:
                d = AppDeferred()
                d.errback(Failure())
                return d
            return defer.fail(Failure())
        if subclass:
            d = AppDeferred()
            d.callback(r)
            return d
        return defer.succeed(r)

    return wrapped


_WCLASS = {}


def wrapped_class(config):
    key = config.key()
    if key in _WCLASS:
        return _WCLASS[key]
    base = pg.make_class(config)

    class WProg(base):
        # (setUp and tearDown return plain Deferreds, the test method an instance of a subclass)
        setUp = _wrap(base.setUp)
        test_it = _wrap(base.test_it, subclass=True)
        tearDown = _wrap(base.tearDown)

    _WCLASS[key] = WProg
    return WProg


def sync_actions(nc):
    acts = c01.cleanup_actions(nc)
    if nc >= 2:
        # the most recent cleanup is registered with keyword arguments
        acts["setUp"][-1] = ("cleanup_kw", acts["setUp"][-1][1])
    return acts


def sync_execute(nc, em, chooser):
    pg.perform = _perform
    config = pg.Config(actions=sync_actions(nc), kinds=SYNC_KINDS, setup_pre_kinds=(pg.ERROR,), expect_mismatch=em)
    ctx = pg.Ctx(config, chooser)
    case = pg.new_case(config, ctx)
    r1 = rec.Ext()
    try:
        case.run(r1)
        how1 = "returned"
    except BaseException as e:
        how1 = type(e).__name__
    log1 = [e[0] for e in r1.log]
    x1 = pg.impl_stage_log(ctx.xlog)
    ctx.new_run()
    wcase = wrapped_class(config)("test_it", runTest=SynchronousDeferredRunTest)
    wcase._vt_ctx = ctx
    r2 = rec.Ext()
    try:
        wcase.run(r2)
        how2 = "returned"
    except BaseException as e:
        how2 = type(e).__name__
    log2 = [e[0] for e in r2.log]
    x2 = pg.impl_stage_log(ctx.xlog)
    return ctx, (log1, how1, x1), (log2, how2, x2)


def shared_deferred_scenarios(res):
    """One canned, already-fired Deferred handed out by two tests run one after the other (each run
    with its own runner): the first run consumes a failure, after which the Deferred is one that
    has fired with a value - and the second test is one that returned."""
    from twisted.internet import defer

    for label, make, want in (
        ("failed", lambda: defer.fail(ErrA("canned")), (["startTest", "addError", "stopTest"], ["startTest", "addSuccess", "stopTest"])),
        ("succeeded", lambda: defer.succeed("canned"), (["startTest", "addSuccess", "stopTest"], ["startTest", "addSuccess", "stopTest"])),
    ):
        canned = make()

        class Shared(testtools.TestCase):
            run_tests_with = SynchronousDeferredRunTest

            def test_one(self):
                return canned

            def test_two(self):
                return canned

        got = []
        for name in ("test_one", "test_two"):
            r = rec.Ext()
            try:
                Shared(name).run(r)
            except BaseException as e:
                r.log.append(("run() raised %s" % type(e).__name__,))
            got.append([e[0] for e in r.log])
        res.evaluations += 2
        res.traces_validated += 1
        if tuple(got) != want:
            res.violation("C20/sync-runtest-shared-deferred", "two tests returning one already-%s Deferred were reported as %r, expected %r" % (label, got, list(want)), {"shared": label})


def shards(tier):
    return [("bfs", i) for i in range(len(OPS))] + [("sync", nc, em) for nc in (0, 1, 2) for em in (False, True)]


def run_shard(shard, tier, seed):
    res = ShardResult()
    if shard[0] == "bfs":
        gc.collect()
        run_bfs(res, 6 if tier == "quick" else 8, first_ops=[OPS[shard[1]]])
        res.notes["states_are_distinct"] = 1
        return res
    _, nc, em = shard
    bound = 2 if tier == "quick" else 3
    if (nc, em) == (0, False):
        shared_deferred_scenarios(res)

    def check(ch, o):
        ctx, a, b = o.v
        res.evaluations += 1
        if ch.cost:
            res.distinct.add(obs_hash((shard, tuple(sorted(ctx.memo.items())))))
        if a != b:
            res.violation("C20/sync-runtest", "plain RunTest gave %r, SynchronousDeferredRunTest on already-fired Deferreds gave %r [decisions %r]" % (a, b, sorted(ctx.memo.items())), {"sync": [nc, em], "choices": ch.choices})

    stats = explore(lambda ch: c01._wrap(sync_execute(nc, em, ch)), check, bound, order_seed=seed)
    res.states += stats.choice_points + 1
    res.transitions += stats.edges
    res.traces_validated += stats.executions
    return res


def meta(tier):
    return {
        "technique": MANIFEST_INFO["technique"],
        "rule": "BFS: state = abstract Deferred state (fired?, kind, value, pending callbacks), every transition executed on a fresh real Deferred by replay; non-trivial = non-initial states; plus every generated program with <= bound deviating stages for the runner comparison",
        "bounds": {"history_depth": 6 if tier == "quick" else 8, "ops": len(OPS), "sync_runner_deviations": 2 if tier == "quick" else 3},
        "assumptions": MANIFEST_INFO["level_note"].split("; "),
    }


def replay(data):
    if "history" in data:
        sysm = System()
        impl, m = sysm.fresh()
        out, ok = [], True
        hist = [tuple(o) for o in data["history"]]
        for op in hist:
            p = sysm.apply(impl, m, op, True)
            out.append("%r -> state %s problems %r" % (op, _st(m), p))
            ok = ok and not p
        res = ShardResult()
        p = state_checks(sysm, tuple(hist), res)
        out.append("state checks: %r" % (p,))
        return ok and not p, "\n".join(out)
    from vt.explore.chooser import Chooser

    if "shared" in data:
        res = ShardResult()
        shared_deferred_scenarios(res)
        return not res.violations, "\n".join(str(v) for v in res.violations)
    nc, em = data["sync"]
    ctx, a, b = sync_execute(nc, em, Chooser(data["choices"]))
    return a == b, "plain=%r\nsync=%r" % (a, b)
