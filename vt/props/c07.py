"""C07 — mismatches are always describable; assertThat/expectThat report them faithfully."""

import ast
import itertools
import tempfile

import testtools
from testtools import matchers as M
from testtools.assertions import assert_that
from testtools.compat import text_repr
from testtools.content import Content
from testtools.matchers import MismatchError

from vt import matchexpr as X
from vt import recorders as rec
from vt.explore.chooser import obs_hash
from vt.runner import ShardResult

PROPERTY = "C07"

MANIFEST_INFO = {
    "engine": "E",
    "design_ref": "DESIGN.md section 5, C07",
    "technique": "bounded-exhaustive enumeration: every matcher expression tree up to a depth bound x every value of its (extended, non-ASCII/control-character) domain for totality of str()/describe()/get_details()/str(MismatchError) in both verbosity modes with and without annotation, assertThat/assert_that/expectThat driven for every pair; every str/bytes over a 9-symbol alphabet up to a length bound x 3 multiline modes for the text_repr/literal_eval round trip",
    "level_text": "All expression trees of depth <= 2 over the C06 leaf set (quick: at most 1500 per type and level) are applied to every value of their domain, extended with control characters, quotes, backslashes, astral and non-UTF-8 bytes: str(matcher) must be text for every matcher; for every mismatching pair describe() must return str (the same one when asked again), get_details() a dict of Content, and str(MismatchError) must not raise for verbose in {False, True} with and without an Annotate message; assertThat and assert_that must raise MismatchError exactly for the mismatching pairs, expectThat must never raise and the test must fail after the rest of the body and tearDown ran (for the leaf matchers also when expectThat is used in setUp before/after the up-call, in tearDown before/after the up-call or in a cleanup; those sites also under SynchronousDeferredRunTest and both AsynchronousDeferredRunTest variants on the virtual reactor). text_repr is checked on all 66k (quick) / 597k (thorough) strings and all ASCII byte strings over {a ' \" \\ LF CR e-acute NUL U+1F600} up to length 5 / 6.",
    "level_note": "Totality only: whether a pair mismatches is taken from the implementation's own verdict (C06 decides verdicts); the text_repr alphabet holds one member of every character class its escaping logic branches on.",
}

EXTRA_STR = ["\x00\x1b", "it's \"q\" \\", "\U0001F600é", "line1\nline2", "'''\n\\", "name-\udcff"]  # (the last: a lone surrogate, as os.fsdecode yields for undecodable file names)
EXTRA_BYTES = [b"\x00\xfe", b"'\"\\\n", b"\xff\n\xfe"]


def check_pair(e, v, res):
    problems = []
    m = e.make()
    try:
        s = str(m)
        if not isinstance(s, str):
            problems.append(("matcher-str", "str(%s) returned %r" % (e.name, type(s).__name__)))
    except Exception as ex:
        problems.append(("matcher-str", "str() of %s raised %s: %s" % (e.name, type(ex).__name__, str(ex)[:100])))
    try:
        mm = m.match(v)
    except BaseException:
        return problems  # verdict problems are C06's business
    res.evaluations += 1
    if mm is None:
        for name, fn in (("assertThat", lambda: _CASE.assertThat(v, e.make())), ("assert_that", lambda: assert_that(v, e.make()))):
            try:
                fn()
            except BaseException as ex:
                problems.append(("assert-faithful", "%s(%r, %s) raised %s although match() returned None" % (name, v, e.name, type(ex).__name__)))
        return problems
    # mismatch: everything about it must be describable
    try:
        d = mm.describe()
        if not isinstance(d, str):
            problems.append(("describe", "%s.match(%r).describe() returned %s" % (e.name, v, type(d).__name__)))
        elif mm.describe() != d:
            # (a mismatch is described more than once: by a logger, then by the failure report)
            problems.append(("describe", "%s.match(%r).describe() returned %r the first time and %r the second" % (e.name, v, d[:80], mm.describe()[:80])))
    except Exception as ex:
        problems.append(("describe", "%s.match(%r).describe() raised %s: %s" % (e.name, v, type(ex).__name__, str(ex)[:100])))
    try:
        det = mm.get_details()
        if not isinstance(det, dict) or not all(isinstance(c, Content) for c in det.values()):
            problems.append(("get_details", "%s.match(%r).get_details() returned %r" % (e.name, v, det)))
    except Exception as ex:
        problems.append(("get_details", "%s.match(%r).get_details() raised %s" % (e.name, v, type(ex).__name__)))
    for verbose in (False, True):
        for message in ("", "note é"):
            matcher = M.Annotate.if_message(message, e.make())
            try:
                mm2 = matcher.match(v)
                text = str(MismatchError(v, matcher, mm2, verbose))
                if not isinstance(text, str):
                    problems.append(("mismatcherror-str", "str(MismatchError) returned %s" % type(text).__name__))
            except Exception as ex:
                clause = "mismatcherror-str"
                problems.append((clause, "str(MismatchError(%r, %s, verbose=%r, message=%r)) raised %s: %s" % (v, e.name, verbose, message, type(ex).__name__, str(ex)[:100])))
            res.evaluations += 1
    # assertThat / assert_that raise exactly now
    for name, fn in (
        ("assertThat", lambda: _new_case().assertThat(v, e.make(), "msg", True)),
        ("assert_that", lambda: assert_that(v, e.make(), "msg")),
        ("assertThat (no message)", lambda: _new_case().assertThat(v, e.make())),
        ("assert_that (no message)", lambda: assert_that(v, e.make())),
    ):
        try:
            fn()
            problems.append(("assert-faithful", "%s(%r, %s) did not raise although match() returned a mismatch" % (name, v, e.name)))
        except MismatchError:
            pass
        except Exception as ex:
            problems.append(("assert-faithful", "%s(%r, %s) raised %s instead of MismatchError" % (name, v, e.name, type(ex).__name__)))
    return problems


class _Bare(testtools.TestCase):
    def test_x(self):
        pass


def _new_case():
    return _Bare("test_x")


_CASE = _new_case()


class _Expecting(testtools.TestCase):
    _spec = None
    _log = None

    def test_x(self):
        v, e = self._spec
        self.expectThat(v, e.make())
        self._log.append("after-expectThat")

    def tearDown(self):
        super().tearDown()
        self._log.append("tearDown")


class _ExpectingThenSkip(testtools.TestCase):
    _spec = None

    def test_x(self):
        v, e = self._spec
        self.expectThat(v, e.make(), "expectation")
        self.skipTest("a later skip must not hide the failed expectation")


EXPECT_SITES = ("setUp.pre", "setUp", "tearDown.pre", "tearDown", "cleanup", "setUp+skip", "setUp.pre+skip", "cleanup-after-setUp-skip")


class _ExpectingAt(testtools.TestCase):
    """expectThat at every place user code runs other than the test method."""

    _spec = None
    _site = None
    _log = None

    def _expect(self, site):
        if site == self._site:
            v, e = self._spec
            self.expectThat(v, e.make())
            self._log.append("after-expectThat@" + site)

    def setUp(self):
        self._expect("setUp.pre")
        self._expect("setUp.pre+skip")
        super().setUp()
        self.addCleanup(self._expect, "cleanup")
        self.addCleanup(self._expect, "cleanup-after-setUp-skip")
        self._expect("setUp")
        self._expect("setUp+skip")
        if self._site.endswith("skip"):
            # the expectation failed (or not); setUp then decides that the test cannot run here
            self.skipTest("setUp skips after the expectation")

    def test_x(self):
        self._expect("test")
        self._log.append("test")

    def tearDown(self):
        self._expect("tearDown.pre")
        super().tearDown()
        self._expect("tearDown")
        self._log.append("tearDown")


def check_expect_sites(e, v, res):
    problems = []
    try:
        mismatching = e.make().match(v) is not None
    except BaseException:
        return problems
    for site in EXPECT_SITES:
        case = _ExpectingAt("test_x")
        log = []
        case._spec, case._site, case._log = (v, e), site, log
        result = rec.Ext()
        try:
            case.run(result)
        except BaseException as ex:
            problems.append(("expectThat", "run() of a test using expectThat(%r, %s) in %s raised %s" % (v, e.name, site, type(ex).__name__)))
            continue
        res.evaluations += 1
        outs = [x[0] for x in result.log if x[0] in rec.OUTCOMES]
        skipping = site.endswith("skip")
        if sorted(log) != sorted(["after-expectThat@" + site] + ([] if skipping else ["test", "tearDown"])):
            problems.append(("expectThat", "expectThat(%r, %s) in %s: rest of the test did not run: %r (outcomes %r)" % (v, e.name, site, log, outs)))
        want = ["addFailure"] if mismatching else (["addSkip"] if skipping else ["addSuccess"])
        if outs != want:
            problems.append(("expectThat-site", "expectThat(%r, %s) in %s with mismatch=%r gave outcomes %r" % (v, e.name, site, mismatching, outs)))
    return problems


def check_expect_runners(res):
    """expectThat at every site under the Deferred-aware runners too (one matching and one
    mismatching expectation per site; which matcher it is does not matter here)."""
    from testtools.matchers import Equals
    from testtools.twistedsupport import AsynchronousDeferredRunTest, AsynchronousDeferredRunTestForBrokenTwisted, SynchronousDeferredRunTest

    from vt.explore import vreactor
    from vt.explore.chooser import Chooser

    class _E:
        def __init__(self, m):
            self.name = "Equals(%d)" % m
            self._m = m

        def make(self):
            return Equals(self._m)

    problems = []
    reactor = vreactor.get_reactor()
    runners = [
        ("SynchronousDeferredRunTest", lambda: SynchronousDeferredRunTest),
        ("AsynchronousDeferredRunTest", lambda: AsynchronousDeferredRunTest.make_factory(reactor=reactor, timeout=100.0)),
        ("AsynchronousDeferredRunTestForBrokenTwisted", lambda: AsynchronousDeferredRunTestForBrokenTwisted.make_factory(reactor=reactor, timeout=100.0)),
    ]
    for rname, factory in runners:
        for site in EXPECT_SITES + ("test",):
            for expected in (1, 2):
                mismatching = expected != 1
                case = _ExpectingAt("test_x", runTest=factory())
                log = []
                case._spec, case._site, case._log = (1, _E(expected)), site, log
                result = rec.Ext()
                if reactor.dirty():
                    reactor.scrub()
                reactor.arm(Chooser(()), max_interrupts=0, ties=False)
                try:
                    case.run(result)
                except BaseException as ex:
                    problems.append(("expectThat-runner", "%s: run() of a test using expectThat in %s raised %s: %s" % (rname, site, type(ex).__name__, ex)))
                    continue
                finally:
                    reactor.disarm()
                    reactor.scrub()
                res.evaluations += 1
                outs = [x[0] for x in result.log if x[0] in rec.OUTCOMES]
                skipping = site.endswith("skip")
                want = ["addFailure"] if mismatching else (["addSkip"] if skipping else ["addSuccess"])
                if outs != want:
                    problems.append(("expectThat-runner", "%s: expectThat(1, Equals(%d)) in %s gave outcomes %r, expected %r" % (rname, expected, site, outs, want)))
    vreactor.discard_reactor()
    return problems


def check_expect_then_skip(e, v, res):
    problems = []
    try:
        mismatching = e.make().match(v) is not None
    except BaseException:
        return problems
    case = _ExpectingThenSkip("test_x")
    case._spec = (v, e)
    result = rec.TT()
    try:
        case.run(result)
    except BaseException as ex:
        return [("expectThat", "run() raised %s" % type(ex).__name__)]
    res.evaluations += 1
    outs = [x[0] for x in result.log if x[0] in rec.OUTCOMES]
    if mismatching and (outs != ["addFailure"] or result.wasSuccessful()):
        problems.append(("expectThat-masked", "expectThat(%r, %s) mismatched, the test then skipped: outcomes %r, wasSuccessful()=%r" % (v, e.name, outs, result.wasSuccessful())))
    if not mismatching and outs != ["addSkip"]:
        problems.append(("expectThat", "expectThat(%r, %s) matched, the test then skipped: outcomes %r" % (v, e.name, outs)))
    return problems


def check_expect(e, v, res):
    problems = []
    try:
        mismatching = e.make().match(v) is not None
    except BaseException:
        return problems
    case = _Expecting("test_x")
    log = []
    case._spec = (v, e)
    case._log = log
    result = rec.Ext()
    try:
        case.run(result)
    except BaseException as ex:
        problems.append(("expectThat", "run() of a test using expectThat(%r, %s) raised %s" % (v, e.name, type(ex).__name__)))
        return problems
    res.evaluations += 1
    outs = [x[0] for x in result.log if x[0] in rec.OUTCOMES]
    if log != ["after-expectThat", "tearDown"]:
        problems.append(("expectThat", "expectThat(%r, %s): rest of the test did not run: %r (outcomes %r)" % (v, e.name, log, outs)))
    want = ["addFailure"] if mismatching else ["addSuccess"]
    if outs != want:
        problems.append(("expectThat", "expectThat(%r, %s) with mismatch=%r gave outcomes %r" % (v, e.name, mismatching, outs)))
    return problems


ALPHABET = ("a", "'", '"', "\\", "\n", "\r", "é", "\x00", "\U0001F600")


def check_text_repr(res, tier, shard, nshards):
    problems = []
    maxlen = 5 if tier == "quick" else 6
    idx = -1
    for n in range(0, maxlen + 1):
        for chars in itertools.product(ALPHABET, repeat=n):
            idx += 1
            if idx % nshards != shard:
                continue
            s = "".join(chars)
            candidates = [s]
            if all(ord(c) < 128 for c in s):
                candidates.append(s.encode("ascii"))
            elif all(ord(c) < 256 for c in s):
                candidates.append(s.encode("latin-1"))
            for t in candidates:
                for multiline in (None, True, False):
                    res.evaluations += 1
                    try:
                        r = text_repr(t, multiline)
                        back = ast.literal_eval(r)
                    except Exception as ex:
                        problems.append(("text_repr", "text_repr(%r, multiline=%r) -> %s: %s" % (t, multiline, type(ex).__name__, str(ex)[:80])))
                        continue
                    if back != t or type(back) is not type(t) or not isinstance(r, str):
                        problems.append(("text_repr", "text_repr(%r, multiline=%r) = %r evaluates to %r" % (t, multiline, r, back)))
            res.states += 1
            if n >= 2:
                res.distinct.add(obs_hash(("tr", s)))
    return problems


NSHARDS = 64


def shards(tier):
    return list(range(NSHARDS))


def run_shard(shard, tier, seed):
    import warnings

    warnings.simplefilter("ignore")
    res = ShardResult()
    sc = X.Scratch(tempfile.mkdtemp(prefix="vt-c07-"))
    try:
        doms = X.domains(sc)
        doms[X.STR] = doms[X.STR] + EXTRA_STR
        doms[X.BYTES] = doms[X.BYTES] + EXTRA_BYTES
        exprs = X.enumerate_exprs(2, sc, cap_per_type=1500 if tier == "quick" else None, cap_from_depth=2)
        mine = exprs[shard::NSHARDS]
        for e in mine:
            res.states += 1
            if e.depth >= 1:
                res.distinct.add(obs_hash(e.name))
            for v in X.values_for(e, doms):
                if e.type == X.CALL and (v is X._raise_kbi or v is X._raise_abort):
                    continue
                problems = check_pair(e, v, res)
                if e.depth <= 1:
                    problems += check_expect(e, v, res)
                if e.depth == 0:
                    problems += check_expect_then_skip(e, v, res)
                    problems += check_expect_sites(e, v, res)
                for clause, msg in problems:
                    fp = "C07/%s" % clause
                    if clause == "matcher-str" or (clause == "mismatcherror-str" and "verbose=True" in msg):
                        for nm in ("FileContains", "DirContains", "HasPermissions", "SamePath", "TarballContains"):
                            if nm in e.name and ("NotImplementedError" in msg or "AttributeError" in msg):
                                fp = "C07/matcher-str/filesystem-matchers-without-str"
                    res.violation(fp, msg, {"expr": e.name, "value": repr(v)})
        if shard == 0:
            for clause, msg in check_expect_runners(res):
                res.violation("C07/%s" % clause, msg, {"expect_runners": msg})
        for clause, msg in check_text_repr(res, tier, shard, NSHARDS):
            res.violation("C07/%s" % clause, msg, {"text_repr": msg})
        if mine:
            res.add_sample({"expression": mine[-1].name, "text_repr_sample": text_repr("a'\n\"\\", True)})
        res.transitions = res.evaluations
        res.traces_validated = res.evaluations
    finally:
        sc.cleanup()
    return res


def meta(tier):
    return {
        "technique": MANIFEST_INFO["technique"],
        "rule": "states = expression trees + text_repr inputs; evaluations = str()/describe()/MismatchError renderings, assertion calls and text_repr round trips; non-trivial = trees of depth >= 1 and strings of length >= 2; distinct by expression text / string",
        "bounds": {"expr_depth": 2, "cap_per_type_per_level": 1500 if tier == "quick" else None, "text_repr_len": 5 if tier == "quick" else 6, "alphabet": [repr(c) for c in ALPHABET]},
        "assumptions": MANIFEST_INFO["level_note"].split("; "),
    }


def replay(data):
    if "expect_runners" in data:
        res = ShardResult()
        p = check_expect_runners(res)
        return (not p), repr(p[:6])
    sc = X.Scratch(tempfile.mkdtemp(prefix="vt-c07-"))
    try:
        if "text_repr" in data:
            res = ShardResult()
            p = []
            for s in range(NSHARDS):
                p.extend(check_text_repr(res, "quick", s, NSHARDS))
            return (not p), repr(p[:5])
        doms = X.domains(sc)
        doms[X.STR] = doms[X.STR] + EXTRA_STR
        doms[X.BYTES] = doms[X.BYTES] + EXTRA_BYTES
        for e in X.enumerate_exprs(2, sc):
            if e.name == data["expr"]:
                res = ShardResult()
                p = []
                for v in X.values_for(e, doms):
                    p += check_pair(e, v, res) + check_expect(e, v, res)
                    if e.depth == 0:
                        p += check_expect_then_skip(e, v, res) + check_expect_sites(e, v, res)
                return (not p), "expr=%s problems=%r" % (e.name, p)
        return True, "expression not found"
    finally:
        sc.cleanup()
