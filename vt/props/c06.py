"""C06 — matcher verdicts obey their declared semantics compositionally."""

import itertools
import tempfile

from testtools import matchers as M

from vt import matchexpr as X
from vt.explore.chooser import obs_hash
from vt.runner import ShardResult
from vt.snapshot import snapshot

PROPERTY = "C06"

MANIFEST_INFO = {
    "engine": "E",
    "design_ref": "DESIGN.md section 5, C06",
    "technique": "bounded-exhaustive breadth-first enumeration of well-typed matcher expression trees (76 leaf matchers over 10 typed domains, 25 combinators) applied to every value of the matching domain and compared with a denotational reference evaluator; MatchesSetwise additionally under every iteration order of its matcher set (hash-controlled wrappers) and every permutation of the values against a brute-force assignment search",
    "level_text": "Every expression tree up to depth 2 (quick, ~155k trees) / depth 3 with a per-type cap per level (thorough) is built afresh and matched against every value of its domain: match() is None must equal the reference predicate, non-Exception errors of a Raises matchee must propagate unless matched, repeating the match (same and fresh matcher) must give the same verdict, and structural snapshots of matcher and matchee before and after must be equal. All MatchesSetwise instances over <= 3 matchers from {LessThan, Equals, GreaterThan, Always, Never} x all value lists of length <= 3 over {0,1,2} x all iteration orders are compared with the existence of a one-to-one assignment. Leaves include KeysEqual over a mapping that is not a dict, HasPermissions against a sticky-bit file, AllMatch over equal-but-different elements, a one-shot preprocessor, KeysEqual with repeated and with partially ordered (frozenset) keys, SameMembers given an iterator, and one regex pattern under two flag sets.",
    "level_note": "The reference evaluator (vt/matchexpr.py) is written from the documentation, independently of the implementation; values outside a matcher's documented domain (e.g. a raising callable for Warnings, a directory for FileContains) are not generated; binary combinators at depth >= 2 combine a newest-level operand with a leaf operand.",
}


def check_expr(e, doms, res):
    problems = []
    for v in X.values_for(e, doms):
        try:
            want = e.sem(v)
        except Exception as ex:  # reference itself cannot judge this pair: ill-typed, skip
            res.count("skipped_illtyped")
            continue
        m = e.make()
        try:
            before_m = snapshot(m)
            before_v = snapshot(v)
        except Exception:
            before_m = before_v = None
        try:
            mm = m.match(v)
            got = mm is None
        except (KeyboardInterrupt, X.Abort):
            got = X.PROPAGATE
        except Exception as ex:
            got = ("raised", type(ex).__name__, str(ex)[:120])
        res.evaluations += 1
        res.transitions += 1
        if got != want:
            clause = "verdict"
            if isinstance(got, tuple):
                clause = "match-raised"
            elif want == X.PROPAGATE or got == X.PROPAGATE:
                clause = "propagation"
            problems.append((clause, "%s .match(%r): implementation says %r, documented semantics say %r" % (e.name, v, got, want)))
            continue
        if before_m is not None:
            try:
                if snapshot(m) != before_m:
                    problems.append(("purity", "%s was modified by matching %r" % (e.name, v)))
                if snapshot(v) != before_v:
                    problems.append(("purity", "matchee %r was modified by %s" % (v, e.name)))
            except Exception:
                pass
        if got != X.PROPAGATE:
            try:
                again = m.match(v) is None
                fresh = e.make().match(v) is None
            except BaseException as ex:
                again = fresh = ("raised", type(ex).__name__)
            if again != got or fresh != got:
                problems.append(("determinism", "%s .match(%r): %r, then %r on the same matcher and %r on a fresh one" % (e.name, v, got, again, fresh)))
    return problems


class H:
    """Wrapper giving the harness control over hash (and therefore set iteration order)."""

    def __init__(self, inner, h, name):
        self.inner = inner
        self.h = h
        self.name = name

    def __hash__(self):
        return self.h

    def __eq__(self, other):
        return self is other

    def match(self, v):
        return self.inner.match(v)

    def __str__(self):
        return self.name


SETWISE_FAMILY = [
    ("LessThan(1)", lambda: M.LessThan(1), lambda v: v < 1),
    ("LessThan(3)", lambda: M.LessThan(3), lambda v: v < 3),
    ("Equals(1)", lambda: M.Equals(1), lambda v: v == 1),
    ("Equals(2)", lambda: M.Equals(2), lambda v: v == 2),
    ("GreaterThan(0)", lambda: M.GreaterThan(0), lambda v: v > 0),
    ("Always()", M.Always, lambda v: True),
    ("Never()", M.Never, lambda v: False),
]


def check_setwise(res, tier, shard, nshards):
    problems = []
    maxn = 3
    idx = -1
    for n in range(0, maxn + 1):
        for combo in itertools.combinations_with_replacement(range(len(SETWISE_FAMILY)), n):
            idx += 1
            if idx % nshards != shard:
                continue
            sems = [SETWISE_FAMILY[i][2] for i in combo]
            for k in range(0, maxn + 1):
                for values in itertools.product((0, 1, 2), repeat=k):
                    want = False
                    if k == n:
                        for perm in itertools.permutations(range(n)):
                            if all(sems[i](values[perm[i]]) for i in range(n)):
                                want = True
                                break
                    verdicts = set()
                    # every iteration order of the matcher set: hashes are a permutation of 0..n-1
                    for hashes in itertools.permutations(range(n)):
                        ms = [H(SETWISE_FAMILY[i][1](), hashes[j], SETWISE_FAMILY[i][0]) for j, i in enumerate(combo)]
                        got = M.MatchesSetwise(*ms).match(list(values)) is None
                        res.evaluations += 1
                        verdicts.add(got)
                    if len(set(combo)) < len(combo):
                        # the SAME matcher object given more than once (MatchesSetwise(*[m] * 2))
                        objs = {i: SETWISE_FAMILY[i][1]() for i in set(combo)}
                        got = M.MatchesSetwise(*[objs[i] for i in combo]).match(list(values)) is None
                        res.evaluations += 1
                        if got != want:
                            problems.append(("setwise-same-object", "MatchesSetwise(%s) built from one matcher object per distinct matcher .match(%r): %r, a one-to-one assignment %s" % (", ".join(SETWISE_FAMILY[i][0] for i in combo), list(values), got, "exists" if want else "does not exist")))
                    res.states += 1
                    res.distinct.add(obs_hash(("setwise", combo, values)))
                    if verdicts != {want}:
                        clause = "setwise-order-dependent" if len(verdicts) > 1 else "setwise"
                        problems.append((clause, "MatchesSetwise(%s).match(%r): verdicts over all iteration orders %r, a one-to-one assignment %s" % (", ".join(SETWISE_FAMILY[i][0] for i in combo), list(values), sorted(verdicts), "exists" if want else "does not exist")))
    return problems


NSHARDS = 64  # (MatchesSetwise instances)
NCHUNKS = 384
THOROUGH_CAP = 20000

# The expression list is built ONCE, in the parent, before the workers are forked (they share it
# copy-on-write and each looks at contiguous chunks only): enumerating it costs more than checking
# a chunk does.
_STATE = {}


def _enumerate(tier, sc):
    if tier == "quick":
        return X.enumerate_exprs(2, sc)
    return X.enumerate_exprs(3, sc, cap_per_type=THOROUGH_CAP)


def _prepare(tier):
    st = _STATE.get(tier)
    if st is None:
        import atexit
        import os

        sc = X.Scratch(tempfile.mkdtemp(prefix="vt-c06-"))
        owner = os.getpid()

        def _cleanup():
            if os.getpid() == owner:
                sc.cleanup()

        atexit.register(_cleanup)
        st = _STATE[tier] = (sc, X.domains(sc), _enumerate(tier, sc))
    return st


def shards(tier):
    n = len(_prepare(tier)[2])
    step = max(1, -(-n // NCHUNKS))
    return [("exprs", lo, min(n, lo + step)) for lo in range(0, n, step)] + [("setwise", i) for i in range(NSHARDS)]


def run_shard(shard, tier, seed):
    import warnings

    warnings.simplefilter("ignore")  # matchees emit warnings on purpose
    res = ShardResult()
    if shard[0] == "setwise":
        for clause, msg in check_setwise(res, tier, shard[1], NSHARDS):
            fp = "C06/setwise-greedy" if clause.startswith("setwise") and clause != "setwise-same-object" else "C06/%s" % clause
            res.violation(fp, msg, {"setwise": msg})
        res.traces_validated = res.evaluations
        return res
    sc, doms, exprs = _prepare(tier)
    mine = exprs[shard[1] : shard[2]]
    for e in mine:
        problems = check_expr(e, doms, res)
        res.states += 1
        if e.depth >= 1:
            res.distinct.add(obs_hash(e.name))
        for clause, msg in problems:
            fp = "C06/%s" % clause
            if "MatchesSetwise" in e.name and clause == "verdict":
                fp = "C06/setwise-greedy"
            if "MatchesPredicate" in e.name and clause == "match-raised" and "not all arguments converted" in msg:
                fp = "C06/match-raised/MatchesPredicate-tuple"
            res.violation(fp, msg, {"expr": e.name, "tier": tier})
    if mine and shard[1] % 7 == 0:
        res.add_sample({"expression": mine[len(mine) // 2].name, "values": [repr(v)[:60] for v in X.values_for(mine[len(mine) // 2], doms)]})
    res.traces_validated = res.evaluations
    res.notes["expressions_total"] = len(exprs)
    res.notes["max_depth"] = max(e.depth for e in mine) if mine else 0
    return res


def meta(tier):
    return {
        "technique": MANIFEST_INFO["technique"],
        "rule": "states = expression trees (plus MatchesSetwise (matchers, values) instances); evaluations = match() calls compared with the reference; non-trivial = trees of depth >= 1; distinct = distinct expression texts",
        "bounds": {"depth": 2 if tier == "quick" else 3, "cap_per_type_per_level": None if tier == "quick" else THOROUGH_CAP, "setwise_matchers": 3, "setwise_values": 3},
        "assumptions": MANIFEST_INFO["level_note"].split("; "),
    }


def replay(data):
    sc = X.Scratch(tempfile.mkdtemp(prefix="vt-c06-"))
    try:
        if "setwise" in data:
            res = ShardResult()
            p = []
            for s in range(NSHARDS):
                p.extend(check_setwise(res, "quick", s, NSHARDS))
            return (not p), "\n".join(m for _, m in p[:10])
        doms = X.domains(sc)
        for tier in dict.fromkeys([data.get("tier", "quick"), "quick", "thorough"]):
            for e in _enumerate(tier, sc):
                if e.name == data["expr"]:
                    res = ShardResult()
                    p = check_expr(e, doms, res)
                    return (not p), "expr=%s\nproblems=%r" % (e.name, p)
        return True, "expression not found"
    finally:
        sc.cleanup()
