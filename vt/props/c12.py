"""C12 — ThreadsafeForwardingResult: per-test atomicity under every interleaving."""

import datetime

from testtools import PlaceHolder
from testtools.content import text_content
from testtools.testresult.real import ThreadsafeForwardingResult

from vt.explore import sched as S
from vt.explore.chooser import Chooser, explore, obs_hash
from vt.runner import ShardResult

PROPERTY = "C12"

MANIFEST_INFO = {
    "engine": "C",
    "design_ref": "DESIGN.md section 5, C12",
    "technique": "stateless preemption-bounded exhaustive exploration of real threads under a baton-passing scheduler (scheduling point before every semaphore operation, thread start/join and every call on the shared target), one injected target fault, deadlock detection",
    "level_text": "2-3 real threads, each reporting 1-2 tests (one of them with a second outcome, skips with an empty reason) through its own real ThreadsafeForwardingResult over one shared recording target and one shared semaphore, are run under every schedule with at most 2 preemptions (quick; 3 and unbounded for the 2x2 harness in thorough) and at most one raising target call (an Exception, or for some calls a BaseException that is not one); one script also reports an outcome without startTest after a full test; every execution's target log is checked for contiguous per-test blocks, exactly-once outcomes, per-thread order, own start time, tags, and the semaphore/deadlock conditions.",
    "level_note": "Scheduling points are at synchronisation operations and at calls on shared objects; steps in between touch thread-local state only (each forwarder is owned by one thread). The GIL makes bytecodes atomic; no memory-model effects are modelled.",
}

UTC = datetime.timezone.utc


def ts(n):
    return datetime.datetime(2020, 1, 1, 0, 0, n, tzinfo=UTC)


OUTCOME_ARGS = {
    "addSuccess": lambda: {},
    "addError": lambda: {"details": {"d": text_content("e")}},
    "addFailure": lambda: {"details": {"d": text_content("f")}},
    "addSkip": lambda: {"reason": ""},  # (what @unittest.skip("") produces: falsy, and still a reason)
    "addExpectedFailure": lambda: {"details": {"d": text_content("x")}},
    "addUnexpectedSuccess": lambda: {},
}

# task scripts; a test step is ("test", id, outcome, test_tags or None)
CONFIGS = {
    "2x2": [
        [("test", "a1", "addSuccess", ("x",)), ("test", "a2", "addFailure", None)],
        [("gtags", ("g",), ()), ("test", "b1", "addSkip", None), ("test", "b2", "addExpectedFailure", ("y",))],
    ],
    "3x1": [
        [("test", "a1", "addError", None)],
        [("test", "b1", "addUnexpectedSuccess", ("x",))],
        [("gtags", ("g",), ()), ("test", "c1", "addSuccess", None)],
    ],
    "3x1ctl": [
        [("startTestRun",), ("test", "a1", "addError", None), ("stopTestRun",)],
        [("test", "b1", "addUnexpectedSuccess", ("x",)), ("done",)],
        [("gtags", ("g",), ()), ("test", "c1", "addSuccess", None)],
    ],
    "2xctl": [
        [("startTestRun",), ("test", "a1", "addFailure", None), ("stop",), ("done",)],
        [("shouldStop",), ("test", "b1", "addSuccess", ("x",)), ("shouldStop",), ("stopTestRun",)],
    ],
    # every worker's forwarder is started by its runner; one of them sets run-level tags
    "2xrun": [
        # (a1 changes its tags once more between its outcome and stopTest: local to a1, and too late
        # to be forwarded; a2 reports a second outcome - an error on top of its failure - which is a
        # block of its own with a2's start time and tags; a3 is an outcome reported without startTest and
        # stopTest - what unittest does for a failing setUpClass - which has no start time and no test-local
        # tags of its own, and certainly not a2's)
        [("startTestRun",), ("test", "a1", "addSuccess", None, ("late",)), ("test", "a2", "addFailure", ("x",), None, "addError"), ("lone", "a3", "addError", "a2")],
        [("startTestRun",), ("gtags", ("g",), ()), ("test", "b1", "addSkip", None), ("gtags", (), ("g",)), ("test", "b2", "addSuccess", None)],
    ],
    # explicit times that repeat: a test whose start and end coincide, a test starting at the very
    # instant its predecessor ended
    "2xsametime": [
        [("test", "e1", "addSuccess", None), ("test", "e2", "addFailure", ("x",))],
        # (g1: the clock is set back inside the test - TestResult.time says it may)
        [("test", "f1", "addSkip", None), ("test", "g1", "addSkip", None)],
    ],
    "2x1": [
        [("test", "a1", "addSuccess", None)],
        [("test", "b1", "addError", ("x",))],
    ],
    "3x2": [
        [("test", "a1", "addSuccess", None), ("test", "a2", "addSkip", ("x",))],
        [("test", "b1", "addFailure", None), ("test", "b2", "addSuccess", None)],
        [("gtags", ("g",), ()), ("test", "c1", "addUnexpectedSuccess", None), ("test", "c2", "addError", None)],
    ],
    "2x3": [
        [("test", "a1", "addSuccess", None), ("test", "a2", "addFailure", ("x",)), ("test", "a3", "addSkip", None)],
        [("test", "b1", "addError", None), ("gtags", ("g",), ()), ("test", "b2", "addSuccess", None), ("test", "b3", "addExpectedFailure", None)],
    ],
}

TEST_TIMES = {}
for _i, _tid in enumerate(["a1", "a2", "a3", "b1", "b2", "b3", "c1", "c2"]):
    TEST_TIMES[_tid] = (ts(2 * _i + 1), ts(2 * _i + 2))


TEST_TIMES["e1"] = (ts(40), ts(40))
TEST_TIMES["e2"] = (ts(40), ts(41))
TEST_TIMES["f1"] = (ts(41), ts(41))
TEST_TIMES["g1"] = (ts(50), ts(47))


class TargetFault(Exception):
    pass


class TargetAbort(BaseException):
    """A fault that is not an Exception (an interrupt delivered while the target is at work)."""


class SharedTarget:
    """Recording extended result; every call is a visible operation and may be made to raise."""

    def __init__(self, sched, faults, abort_in=()):
        self.sched = sched
        self.log = []  # (task id, name, payload, faulted)
        self.faults = faults
        self.abort_in = abort_in  # calls whose injected fault is a BaseException rather than an Exception
        self._should_stop = False

    def _enter(self, name, payload):
        s = self.sched
        s.point("target." + name)
        tid = s.current.id if not s.aborting else -1
        faulted = False
        if self.faults and s.fault("target.%s" % name):
            faulted = True
        self.log.append((tid, name, payload, faulted))
        if faulted:
            if name in self.abort_in:
                raise TargetAbort("%s%r" % (name, payload))
            raise TargetFault("%s%r" % (name, payload))

    def startTestRun(self):
        self._enter("startTestRun", ())

    def stopTestRun(self):
        self._enter("stopTestRun", ())

    def startTest(self, test):
        self._enter("startTest", (test.id(),))

    def stopTest(self, test):
        self._enter("stopTest", (test.id(),))

    def time(self, t):
        self._enter("time", (t,))

    def tags(self, new, gone):
        self._enter("tags", (tuple(sorted(new)), tuple(sorted(gone))))

    def stop(self):
        self._enter("stop", ())
        self._should_stop = True

    def done(self):
        self._enter("done", ())

    @property
    def shouldStop(self):
        self._enter("shouldStop", ())
        return self._should_stop

    def wasSuccessful(self):
        return True


def _mk_outcome(name):
    def m(self, test, *a, **kw):
        self._enter(name, (test.id(),))

    m.__name__ = name
    return m


for _n in OUTCOME_ARGS:
    setattr(SharedTarget, _n, _mk_outcome(_n))


def execute(config, chooser, faults=True, make_forwarder=None):
    # "<name>+fine": every call a reporter makes into its own forwarder is a scheduling point too,
    # so that state wrongly shared between forwarders (class/module level) is exposed
    fine = config.endswith("+fine")
    config = config.split("+")[0]
    scripts = CONFIGS[config]
    sched = S.Scheduler(chooser, horizon=2000, exit_points=False)  # nothing in this harness observes thread termination
    sem = S.SSemaphore(sched, 1)
    target = SharedTarget(sched, faults, abort_in=("tags", "stopTest", "addFailure", "stopTestRun"))
    seen_exc = {}  # task index -> list of (step, exception repr)
    make_forwarder = make_forwarder or (lambda target, sem: ThreadsafeForwardingResult(target, sem))

    def reporter(idx, script):
        tfr = make_forwarder(target, sem)
        excs = seen_exc.setdefault(idx, [])

        def call(label, fn, *a, **kw):
            if fine:
                sched.point("forwarder.%s" % (label[-1],))
            try:
                return fn(*a, **kw)
            except (Exception, TargetAbort) as e:
                excs.append((label, type(e).__name__))
                return None

        for step in script:
            op = step[0]
            if op == "test":
                _, tid, outcome, ttags = step[:4]
                late = step[4] if len(step) > 4 else None
                t = PlaceHolder(tid)
                call((tid, "time"), tfr.time, TEST_TIMES[tid][0])
                call((tid, "startTest"), tfr.startTest, t)
                if ttags:
                    call((tid, "tags"), tfr.tags, set(ttags), set())
                call((tid, "time"), tfr.time, TEST_TIMES[tid][1])
                call((tid, outcome), getattr(tfr, outcome), t, **OUTCOME_ARGS[outcome]())
                if len(step) > 5:
                    call((tid, step[5]), getattr(tfr, step[5]), t, **OUTCOME_ARGS[step[5]]())
                if late:
                    call((tid, "tags"), tfr.tags, set(late), set())
                call((tid, "stopTest"), tfr.stopTest, t)
            elif op == "lone":
                t = PlaceHolder(step[1])
                call((step[1], step[2]), getattr(tfr, step[2]), t, **OUTCOME_ARGS[step[2]]())
            elif op == "gtags":
                call(("gtags",), tfr.tags, set(step[1]), set(step[2]))
            elif op == "shouldStop":
                call(("shouldStop",), lambda: tfr.shouldStop)
            else:
                call((op,), getattr(tfr, op))

    def main():
        threads = []
        for i, script in enumerate(scripts):
            th = S.SThread(sched, target=reporter, args=(i, script), name="reporter-%d" % i)
            threads.append(th)
            th.start()
        for th in threads:
            th.join()

    sched.execute(main)
    return sched, sem, target, seen_exc


def expected_block(script_state, step):
    """Target calls for one test, given the run-level tags buffered so far."""
    _, tid, outcome, ttags = step[:4]
    gnew, ggone = script_state
    block = [("time", (TEST_TIMES[tid][0],)), ("startTest", (tid,)), ("time", (TEST_TIMES[tid][1],))]
    if gnew or ggone:
        block.append(("tags", (tuple(sorted(gnew)), tuple(sorted(ggone)))))
    if ttags:
        block.append(("tags", (tuple(sorted(ttags)), ())))
    block.append((outcome, (tid,)))
    block.append(("stopTest", (tid,)))
    return block


def check_execution(config, sched, sem, target, seen_exc):
    problems = []
    config = config.split("+")[0]
    scripts = CONFIGS[config]
    if sched.deadlock:
        problems.append(("deadlock", sched.deadlock))
        return problems
    for t in sched.tasks:
        if t.exc is not None:
            problems.append(("task-crashed", "%r died with %r" % (t, t.exc)))
    if sem.value != 1:
        problems.append(("semaphore", "semaphore count is %d after the run" % sem.value))
    # expected per-task sequence of target-call groups
    log = target.log
    nfaults = sum(1 for e in log if e[3])
    pos = 0
    # per task: queue of expected groups (each group = list of (name, payload)); task ids are 1..n (0 = main)
    expected = {}
    for i, script in enumerate(scripts):
        groups = []
        g = (set(), set())
        for step in script:
            if step[0] == "test":
                groups.append(("block", expected_block(g, step)))
                if len(step) > 5:
                    groups.append(("block", expected_block(g, step[:2] + (step[5],) + step[3:4])))
            elif step[0] == "lone":
                # no start time of its own (time(None)); "now" is the clock as its reporter last set it
                block = [("time", (None,)), ("startTest", (step[1],)), ("time", (TEST_TIMES[step[3]][1],))]
                if g[0] or g[1]:
                    block.append(("tags", (tuple(sorted(g[0])), tuple(sorted(g[1])))))
                block += [(step[2], (step[1],)), ("stopTest", (step[1],))]
                groups.append(("block", block))
            elif step[0] == "gtags":
                new, gone = set(step[1]), set(step[2])
                g = ((g[0] | new) - gone, (g[1] | gone) - new)
            elif step[0] == "startTestRun":
                groups.append(("single", [("startTestRun", ())]))
                g = (set(), set())
            else:
                groups.append(("single", [(step[0], ())]))
        expected[i + 1] = groups
    # walk the log: the task that owns the current group must own all of its events
    i = 0
    n = len(log)
    while i < n:
        tid, name, payload, faulted = log[i]
        groups = expected.get(tid)
        if not groups:
            problems.append(("extra", "unexpected target call %s%r by task %d at position %d: %r" % (name, payload, tid, i, _short(log))))
            return problems
        kind, calls = groups.pop(0)
        j = 0
        while j < len(calls):
            if i >= n:
                problems.append(("truncated", "log ended inside the block %r of task %d: %r" % (calls, tid, _short(log))))
                return problems
            etid, ename, epayload, efaulted = log[i]
            if etid != tid:
                problems.append(("interleaved", "block of task %d (%r) interleaved with call %s%r of task %d: %r" % (tid, calls[0:2], ename, epayload, etid, _short(log))))
                return problems
            if (ename, epayload) != calls[j]:
                clause = "block-shape"
                if ename == "time" and calls[j][0] == "time":
                    clause = "start-time"
                problems.append((clause, "task %d: expected %s%r, target got %s%r: %r" % (tid, calls[j][0], calls[j][1], ename, epayload, _short(log))))
                return problems
            i += 1
            if efaulted:
                # the block ends here, except that a fault in the outcome is followed by stopTest
                if kind == "block" and j == len(calls) - 2:
                    j += 1
                    continue
                break
            j += 1
    for tid, groups in expected.items():
        if groups:
            problems.append(("missing", "task %d never delivered %r: %r" % (tid, [g[1][0] for g in groups], _short(log))))
    # the exception reaches the reporting task
    raised = sum(len(v) for v in seen_exc.values())
    if raised != nfaults:
        problems.append(("fault-propagation", "%d target call(s) raised but the reporters saw %d exception(s): %r" % (nfaults, raised, seen_exc)))
    return problems


def _short(log):
    return [(t, n) + tuple(p[:1]) + (("FAULT",) if f else ()) for t, n, p, f in log]


# per tier: list of (configuration, (preemption bound, fault bound))
BOUNDS = {
    "quick": [
        ("2x2", (2, 1)),
        ("3x1", (2, 0)),
        ("3x1", (1, 1)),
        ("2xctl", (2, 1)),
        ("2x1", (99, 1)),
        ("2x1+fine", (2, 0)),
        ("2x2+fine", (2, 0)),
        ("2xrun", (2, 0)),
        ("2xsametime", (2, 0)),
    ],
    "thorough": [
        ("2x1+fine", (4, 0)),
        ("2x2+fine", (3, 0)),
        ("3x1+fine", (2, 0)),
        ("2x2", (3, 1)),
        ("2x2", (99, 0)),
        ("3x1", (2, 1)),
        ("3x1", (3, 0)),
        ("3x1ctl", (2, 0)),
        ("3x1ctl", (1, 1)),
        ("2xctl", (3, 1)),
        ("2x1", (99, 1)),
        ("3x2", (2, 0)),
        ("3x2", (1, 1)),
        ("2x3", (2, 1)),
        ("2xrun", (2, 1)),
        ("2xrun", (3, 0)),
        ("2xsametime", (2, 1)),
        ("2xsametime", (3, 0)),
    ],
}


def shards(tier):
    from vt.explore.chooser import first_level_prefixes

    out = []
    for config, bound in BOUNDS[tier]:
        faults = bound[1] > 0
        out.append((config, bound, None))
        for p in first_level_prefixes(lambda ch: execute(config, ch, faults=faults), bound):
            out.append((config, bound, tuple(p)))
    return out


def run_shard(shard, tier, seed):
    config, bound, prefix = shard
    name = "%s/p%d-f%d" % (config, bound[0], bound[1])
    res = ShardResult()
    faults = bound[1] > 0

    def run_one(ch):
        return execute(config, ch, faults=faults)

    def check(ch, obs):
        sched, sem, target, seen_exc = obs
        problems = check_execution(config, sched, sem, target, seen_exc)
        res.evaluations += 1
        if any(ch.cost) if isinstance(ch.cost, tuple) else ch.cost:
            res.distinct.add(obs_hash((config, _short(target.log))))
        if len(res.samples) < 1 and sched.preemptions >= 2:
            res.add_sample({"config": config, "schedule": [list(map(str, x)) for x in sched.trace[:60]], "target_log": [list(map(str, x)) for x in _short(target.log)]})
        for clause, msg in problems:
            res.violation("C12/%s/%s" % (clause, config), msg, {"config": config, "faults": faults, "choices": ch.choices})

    stats = explore(
        lambda ch: _W(run_one(ch)),
        lambda ch, o: check(ch, o.v),
        bound,
        prefix=prefix or (),
        root_only=prefix is None,
        order_seed=seed,
    )
    res.states += stats.choice_points + (1 if prefix is None else 0)
    res.transitions += stats.edges + (0 if prefix is None else 1)
    res.traces_validated += stats.executions
    res.count("schedules", stats.executions)
    res.notes["preemption_bound_" + name] = bound[0]
    res.notes["max_points"] = stats.max_depth
    return res


class _W:
    __slots__ = ("v",)

    def __init__(self, v):
        self.v = v

    def __repr__(self):
        return ""


def meta(tier):
    return {
        "technique": MANIFEST_INFO["technique"],
        "rule": "every schedule of the harness with <= P preemptions and <= F raising target calls (P, F per configuration in bounds); an execution = one complete schedule run to completion on real threads; non-trivial = >= 1 preemption or fault; distinct = distinct target logs (with calling task)",
        "bounds": [{"harness": k, "preemptions": v[0], "faults": v[1]} for k, v in BOUNDS[tier]],
        "assumptions": ["each forwarder is used by one thread only", "reporters call time()/startTest/tags/time()/outcome/stopTest as TestCase.run and PlaceHolder.run do"],
    }


def replay(data):
    ch = Chooser(data["choices"])
    sched, sem, target, seen_exc = execute(data["config"], ch, faults=data.get("faults", True))
    problems = check_execution(data["config"], sched, sem, target, seen_exc)
    text = "schedule=%r\ntarget log=%r\nreporter exceptions=%r\ndeadlock=%r\nproblems=%r" % (sched.trace, _short(target.log), seen_exc, sched.deadlock, problems)
    return (not problems), text
