"""C05 — all details and every traceback reach the result; none is dropped or overwritten."""

import itertools

import fixtures

from testtools.content import Content, text_content
from testtools.content_type import ContentType
from testtools.matchers import Mismatch

from vt import proggen as pg
from vt import recorders as rec
from vt.explore.chooser import Chooser, explore, obs_hash
from vt.props import c01
from vt.runner import ShardResult

PROPERTY = "C05"

MANIFEST_INFO = {
    "engine": "A",
    "design_ref": "DESIGN.md section 5, C05",
    "technique": "stateless deviation-bounded DFS over stage behaviours of generated TestCase programs that attach details (colliding names, empty/multi-chunk/binary/volatile payloads), use assertThat/expectThat with detail-carrying mismatches, detail-carrying fixtures (setUp ok/failing) and addOnException handlers; marker accounting on the details delivered to an extended result that reads every detail inside the outcome call",
    "level_text": "560 payload configurations (user details under 7 sets of colliding names x 4 mismatch shapes x 5 fixture shapes (incl. an old-style fixture interrupted in setUp; a fixture in use attaches one more detail after its setUp) x handlers on/off x both spellings of expected failure) x every program with at most 3 (quick) / 4 (= all, thorough) deviating stages over 11 behaviours (incl. the same exception object raised by several stages, and skipTest() with a falsy reason that has a text of its own), one handler registered before run(): every attached payload marker must arrive in exactly one delivered detail with identical bytes and equal content type, every user exception marker in exactly one text/x-traceback detail, the skip reason as given, volatile content as of reporting time, and every handler once per user exception before the outcome.",
    "level_note": "User details with names that collide with generated ones are attached while the details dict is still empty (attaching a detail under a name that already exists is a documented overwrite, outside the statement); the name 'reason' is never used for user details; extra tracebacks produced by testtools/fixtures themselves (forced failure, SetupError) are allowed.",
}

TB_TYPE = ContentType("text", "x-traceback", {"language": "python", "charset": "utf8"})
BIN = ContentType("application", "octet-stream")
TXT = ContentType("text", "plain", {"charset": "utf8"})

NAME_SETS = (
    (),
    ("traceback",),
    ("traceback", "traceback-1"),
    ("Failed expectation",),
    ("foo", "foo-1"),
    ("foo", "foo-2", "traceback-2"),  # gaps in the numbering
    ("foo", "foo-1", "traceback", "traceback-1", "Failed expectation", "Failed expectation-1", "traceback-2"),
)
MISMATCH_SHAPES = ("none", "assert", "expect", "expect+assert")
FIXTURE_SHAPES = ("none", "ok@setUp", "fail@test", "fail+badcleanup@test", "oldstyle-interrupted@test")
MULTI_NESTED = "multi_nested"
pg.FLATTEN[MULTI_NESTED] = (pg.ERROR, pg.ERROR, pg.FAIL)
SAME_EXC = "same_exc"  # one stored exception OBJECT, raised again by every stage that picks this behaviour
pg.FLATTEN[SAME_EXC] = (pg.ERROR,)
SKIP_FALSY = "skip_falsy"  # skipTest(reason) with a reason that is falsy (an empty lazy string, 0) yet has a text
pg.FLATTEN[SKIP_FALSY] = (pg.SKIP,)
KINDS = (pg.RET, pg.FAIL, pg.ERROR, pg.SKIP, pg.XFAIL, pg.UXSUCCESS, pg.MULTI, MULTI_NESTED, pg.KBI, SAME_EXC, SKIP_FALSY)


class FalsyReason:
    def __init__(self, text):
        self.text = text

    def __bool__(self):
        return False

    def __str__(self):
        return self.text
_prev_perform = pg.perform


def _perform(case, ctx, stage, kind):
    if kind == SKIP_FALSY:
        marker = "%s!%s" % (stage, kind)
        ctx.raised.append((stage, kind, marker))
        ctx.xlog.append(("raise", stage, kind))
        case.skipTest(FalsyReason(marker))
    if kind == SAME_EXC:
        exc = ctx.extra.get("same_exc")
        if exc is None:
            exc = ctx.extra["same_exc"] = pg.VerifError("same!error")
        ctx.raised.append((stage, kind, "same!error"))
        ctx.xlog.append(("raise", stage, kind))
        raise exc
    if kind == MULTI_NESTED:
        # MultipleExceptions with a MultipleExceptions among its constituents (three user exceptions)
        import sys

        from testtools.runtest import MultipleExceptions

        marker = "%s!%s" % (stage, kind)
        ctx.raised.append((stage, kind, marker))
        ctx.xlog.append(("raise", stage, kind))

        def info(exc):
            try:
                raise exc
            except BaseException:
                return sys.exc_info()

        inner = info(MultipleExceptions(info(pg.VerifError(marker + "/n1")), info(AssertionError(marker + "/n2"))))
        raise MultipleExceptions(info(pg.VerifError(marker + "/e")), inner)
    return _prev_perform(case, ctx, stage, kind)



def payload_content(kind, marker, vol):
    m = marker.encode("utf8")
    if kind == "empty":
        return Content(BIN, lambda: []), b""
    if kind == "one":
        return Content(TXT, lambda: [m]), m
    if kind == "multi":
        return Content(TXT, lambda: [m[:3], b"", m[3:], b""]), m
    if kind == "binary":
        return Content(BIN, lambda: [b"\xff\xfe" + m, b"\x00"]), b"\xff\xfe" + m + b"\x00"
    if kind == "volatile":
        vol[marker] = [m + b"@early"]
        return Content(TXT, lambda: list(vol[marker])), None  # expected = value at reporting time
    raise AssertionError(kind)


CONTENT_KINDS = ("one", "multi", "binary", "empty", "volatile")


class DetailMismatch(Mismatch):
    def __init__(self, details):
        self._d = details

    def describe(self):
        return "mismatch with details"

    def get_details(self):
        return self._d


class DetailMatcher:
    def __init__(self, details):
        self._d = details

    def match(self, x):
        return DetailMismatch(self._d)

    def __str__(self):
        return "DetailMatcher()"


class DFixture(fixtures.Fixture):
    def __init__(self, details, fail_marker, bad_cleanup=False):
        super().__init__()
        self._dd = details
        self._fail = fail_marker
        self._bad_cleanup = bad_cleanup

    def _setUp(self):
        for k, v in self._dd.items():
            self.addDetail(k, v)
        if self._bad_cleanup:
            self.addCleanup(self._boom)
        if self._fail:
            raise pg.VerifError(self._fail)

    def _boom(self):
        raise pg.VerifError("fixture-cleanup-boom")


class OldStyleFixture(fixtures.Fixture):
    """Overrides setUp() itself (the older fixtures API), attaches its details and is then
    interrupted: the details are still the fixture's own when useFixture sees the exception."""

    def __init__(self, details, fail_marker):
        super().__init__()
        self._dd = details
        self._fail = fail_marker

    def setUp(self):
        super().setUp()
        for k, v in self._dd.items():
            self.addDetail(k, v)
        raise KeyboardInterrupt(self._fail)


def note_payload(ctx, marker, ctype, data, site):
    ctx.extra.setdefault("payloads", []).append((marker, repr(ctype), data, site))


def do_detail(case, ctx, site, action):
    _, name, ckind = action
    marker = "<<U:%s@%s>>" % (name, site)
    vol = ctx.extra.setdefault("vol", {})
    c, data = payload_content(ckind, marker, vol)
    case.addDetail(name, c)
    note_payload(ctx, marker, c.content_type, data, site)


def do_mutate(case, ctx, site, action):
    # a later stage changes what the volatile contents yield
    vol = ctx.extra.setdefault("vol", {})
    for marker in vol:
        vol[marker] = [marker.encode("utf8"), b"@late:" + site.encode()]


def _mk_details(ctx, tag, names, site):
    d = {}
    vol = ctx.extra.setdefault("vol", {})
    for i, n in enumerate(names):
        marker = "<<%s:%s@%s>>" % (tag, n, site)
        ck = ("one", "multi", "binary")[i % 3]
        if tag == "E" and i == 0:
            ck = "volatile"  # a mismatch detail whose bytes keep changing until the outcome is reported
        c, data = payload_content(ck, marker, vol)
        d[n] = c
        note_payload(ctx, marker, c.content_type, data, site)
    return d


def do_assert(case, ctx, site, action):
    # (the mismatch's own names collide with each other's renamings: foo / foo-1)
    d = _mk_details(ctx, "A", ("foo", "foo-1", "traceback"), site)
    marker = "%s!assertThat" % site
    ctx.raised.append((site, pg.FAIL, marker))
    ctx.extra.setdefault("exc_markers", []).append(None)  # MismatchError text has no marker of ours
    case.assertThat(1, DetailMatcher(d), marker)


def do_expect(case, ctx, site, action):
    d = _mk_details(ctx, "E", ("foo", "Failed expectation", "traceback"), site)
    case.expectThat(1, DetailMatcher(d), "%s!expectThat" % site)


def do_fixture(case, ctx, site, action):
    fail = action[1]
    bad_cleanup = len(action) > 2 and action[2]
    # (the fixture's own names collide with each other's renamings: foo / foo-1)
    d = _mk_details(ctx, "F", ("foo", "foo-1", "traceback", "fx"), site)
    marker = "%s!fixture" % site if fail else None
    if fail:
        ctx.extra.setdefault("user_exc", []).append(marker)
    if bad_cleanup == "oldstyle":
        case.useFixture(OldStyleFixture(d, marker))
    fx = case.useFixture(DFixture(d, marker, bad_cleanup))
    # a detail the fixture attaches while it is in use (after its setUp): still one of its details
    late = _mk_details(ctx, "L", ("fx-late",), site)
    fx.addDetail("fx-late", late["fx-late"])


def do_handlers(case, ctx, site, action):
    # handler 0 was registered on the instance before run() (see execute); the others in setUp
    for i in range(1, action[1]):
        case.addOnException(_make_handler(ctx, i))


def _make_handler(ctx, i):
    shared = ctx.extra["shared_log"]

    def h(exc_info):
        shared.append(("handler", i, _exc_text(exc_info[1])))

    return h


def _exc_text(e, depth=0):
    parts = [repr(e), _safe_str(e)]
    if depth < 4:
        for a in getattr(e, "args", ()):
            if isinstance(a, tuple) and len(a) == 3 and isinstance(a[1], BaseException):
                parts.append(_exc_text(a[1], depth + 1))
    return " ".join(parts)


def _safe_str(e):
    try:
        return str(e)
    except Exception:
        return ""


pg.ACTION_HANDLERS.update({"detail": do_detail, "mutate": do_mutate, "assert_mm": do_assert, "expect_mm": do_expect, "dfixture": do_fixture, "handlers": do_handlers})


def build_config(names, mm, fx, nhandlers, dec):
    actions = {}
    pre = actions.setdefault("setUp.pre", [])
    if nhandlers:
        pre.append(("handlers", nhandlers))
    for i, n in enumerate(names):
        pre.append(("detail", n, CONTENT_KINDS[i % len(CONTENT_KINDS)]))
    if fx == "ok@setUp":
        actions.setdefault("setUp", []).append(("dfixture", False))
    t = actions.setdefault("test", [])
    t.append(("detail", "d-test", "volatile"))
    if fx == "fail@test":
        t.append(("dfixture", True))
    if fx == "fail+badcleanup@test":
        t.append(("dfixture", True, True))
    if fx == "oldstyle-interrupted@test":
        t.append(("dfixture", True, "oldstyle"))
    if "expect" in mm:
        t.append(("expect_mm",))
    if "assert" in mm:
        t.append(("assert_mm",))
    actions.setdefault("tearDown", []).extend([("detail", "d-tearDown", "multi"), ("mutate",)])
    actions.setdefault("setUp", []).append(("cleanup", "1"))
    actions.setdefault("c:1", []).append(("detail", "d-cleanup", "binary"))
    return pg.Config(actions=actions, kinds=KINDS, setup_pre_kinds=(), decorator=dec)


def all_configs():
    out = []
    for names, mm, fx, nh, dec in itertools.product(NAME_SETS, MISMATCH_SHAPES, FIXTURE_SHAPES, (0, 2), (None, "xfail_decorator")):
        out.append((names, mm, fx, nh, dec))
    return out


def execute(cfg, chooser):
    pg.perform = _perform
    config = build_config(*cfg)
    ctx = pg.Ctx(config, chooser)
    shared = []
    ctx.extra["shared_log"] = shared
    case = pg.new_case(config, ctx)
    if cfg[3]:
        # registered by whoever built the test (a loader, a decorator, __init__), before run()
        case.addOnException(_make_handler(ctx, 0))
    result = rec.Ext(log=shared, read_details=True)
    try:
        case.run(result)
        how = ("returned",)
    except BaseException as e:
        how = ("raised", type(e).__name__)
    return ctx, config, shared, how


def check_execution(cfg, ctx, config, shared, how):
    problems = []
    outs = [e for e in shared if e[0] in rec.OUTCOMES]
    if len(outs) != 1:
        return [("one-outcome", "outcomes %r" % ([e[0] for e in outs],))], None
    out = outs[0]
    outcome = out[0]
    details = out[3] or {}
    if outcome == "addSkip" and out[2] is not None and not details:
        details = {}
    tb_type = repr(TB_TYPE)
    # (1) every payload in exactly one delivered detail, same bytes, same type
    vol = ctx.extra.get("vol", {})
    for marker, ctype, data, site in ctx.extra.get("payloads", []):
        if data is None:
            data = b"".join(vol[marker])
        m = marker.encode("utf8")
        if data == b"":
            # empty payload: identified by name only (user detail names are unique)
            name = marker[4:].split("@")[0]
            hits = [k for k, (ct, b) in details.items() if k == name]
            if len(hits) != 1 or details[name] != (ctype, b""):
                problems.append(("payload", "empty detail %r not delivered intact: %r" % (name, details.get(name))))
            continue
        # (tracebacks of fixtures' SetupError quote the details dict: not a delivery of the payload)
        hits = [(k, ct, b) for k, (ct, b) in details.items() if m in b and ct != tb_type]
        if len(hits) != 1:
            problems.append(("payload", "payload %s attached at %s is in %d delivered details (%r); delivered names %r" % (marker, site, len(hits), [h[0] for h in hits], sorted(details))))
        else:
            k, ct, b = hits[0]
            if b != data:
                clause = "volatile" if marker in vol else "payload"
                problems.append((clause, "payload %s delivered as %r under %r, expected %r" % (marker, b, k, data)))
            if ct != ctype:
                problems.append(("payload-type", "payload %s delivered with type %s, attached with %s" % (marker, ct, ctype)))
    # (2) one traceback detail per failure/error raised by user code
    model = pg.ModelRun(config, ctx.memo)
    exc_markers = []
    for stage, kind, marker in ctx.raised:
        if marker.endswith("!assertThat"):
            continue
        if kind in (pg.SKIP, pg.UXSUCCESS, SKIP_FALSY):
            continue
        if config.decorator == "xfail_decorator" and stage == "test" and kind == pg.SKIP:
            continue
        if kind == pg.MULTI:
            exc_markers.extend([marker + "/e", marker + "/f"])
        elif kind == MULTI_NESTED:
            exc_markers.extend([marker + "/e", marker + "/n1", marker + "/n2"])
        else:
            exc_markers.append(marker)
    exc_markers.extend(ctx.extra.get("user_exc", []))
    tb_type = repr(TB_TYPE)
    for m in dict.fromkeys(exc_markers):
        mb = m.encode("utf8")
        hits = [k for k, (ct, b) in details.items() if ct == tb_type and mb in b]
        # (the same exception object raised by several stages: one traceback per raise)
        want_hits = exc_markers.count(m)
        # a failing fixture's SetupError traceback chains ("During handling of ...") the original one
        if len(hits) != want_hits and not (m.endswith("!fixture") and len(hits) in (2, 3)):
            clause = "traceback"
            if config.decorator == "xfail_decorator" and m.startswith("test!"):
                clause = "traceback-behind-expectedFailure-decorator"
            problems.append((clause, "exception %s has %d traceback details (%r); delivered %r" % (m, len(hits), hits, {k: v[0] for k, v in details.items()})))
    # distinct user exceptions have distinct traceback details (a MultipleExceptions that is reported
    # as ONE traceback quoting its constituents does not count as one traceback per constituent)
    owners = {}
    for m in exc_markers:
        mb = m.encode("utf8")
        for k, (ct, b) in details.items():
            if ct == tb_type and mb in b:
                owners.setdefault(k, set()).add(m)
    for k, ms in owners.items():
        plain = {m for m in ms if not m.endswith("!fixture") and not (config.decorator == "xfail_decorator" and m.startswith("test!"))}
        if len(plain) > 1:
            problems.append(("traceback", "traceback detail %r stands for several user exceptions at once: %r" % (k, sorted(plain))))
    # (3) skip reason
    if outcome == "addSkip":
        skips = [marker for stage, kind, marker in ctx.raised if kind in (pg.SKIP, SKIP_FALSY)]
        reason = details.get("reason")
        if reason is None or reason[1].decode("utf8") not in skips:
            problems.append(("skip-reason", "skip reason delivered %r, skips raised %r" % (reason, skips)))
    # (4) handlers: once per user exception, before the outcome
    nh = cfg[3]
    if nh:
        pos_out = shared.index(out)
        hcalls = [e for e in shared if e[0] == "handler"]
        late = [e for e in shared[pos_out:] if e[0] == "handler"]
        if late:
            problems.append(("handler-order", "handler called after the outcome: %r" % (late,)))
        flat = []
        for stage, kind, marker in ctx.raised:
            if marker.endswith("!assertThat"):
                continue
            if kind == pg.MULTI:
                flat.extend([marker + "/e", marker + "/f"])
            elif kind == MULTI_NESTED:
                flat.extend([marker + "/e", marker + "/n1", marker + "/n2"])
            else:
                flat.append(marker)
        flat.extend(ctx.extra.get("user_exc", []))
        for e in hcalls:
            # (under @expectedFailure whatever the body raises is wrapped whole into one expected failure)
            covered = [m for m in dict.fromkeys(flat) if m in e[2] and not m.endswith("!fixture") and not (config.decorator == "xfail_decorator" and m.startswith("test!"))]
            if len(covered) > 1:
                problems.append(("handler-count", "one handler call stands for several user exceptions %r (a MultipleExceptions passed on whole?)" % (covered,)))
        for m in dict.fromkeys(flat):
            for i in range(nh):
                n = sum(1 for e in hcalls if e[1] == i and m in e[2])
                if n != flat.count(m):
                    problems.append(("handler-count", "handler %d called %d times for exception %s (calls %r)" % (i, n, m, hcalls)))
    return problems, outcome


NSHARDS = 96


def shards(tier):
    return list(range(NSHARDS))


def run_shard(shard, tier, seed):
    res = ShardResult()
    bound = 3 if tier == "quick" else 4
    for cfg in all_configs()[shard::NSHARDS]:
        def check(ch, o, cfg=cfg):
            ctx, config, shared, how = o.v
            problems, outcome = check_execution(cfg, ctx, config, shared, how)
            res.evaluations += 1
            if ch.cost:
                res.distinct.add(obs_hash((cfg, tuple(sorted(ctx.memo.items())), outcome)))
            if len(res.samples) < 1 and ch.cost >= 2:
                out = [e for e in shared if e[0] in rec.OUTCOMES]
                res.add_sample({"config": [list(cfg[0])] + list(cfg[1:]), "decisions": [[s, str(k)] for (s, _), k in sorted(ctx.memo.items())], "outcome": outcome, "delivered_detail_names": sorted((out[0][3] or {}).keys()) if out else None})
            for clause, msg in problems:
                res.violation("C05/%s" % clause, "%s [config=%r decisions=%s]" % (msg, cfg, sorted(ctx.memo.items())), {"cfg": [list(cfg[0])] + list(cfg[1:]), "choices": ch.choices})

        stats = explore(lambda ch, cfg=cfg: c01._wrap(execute(cfg, ch)), check, bound, order_seed=seed)
        res.states += stats.choice_points + 1
        res.transitions += stats.edges
        res.traces_validated += stats.executions
    res.notes["bound_completed"] = bound
    return res


def meta(tier):
    return {
        "technique": MANIFEST_INFO["technique"],
        "rule": "per payload configuration every choice sequence with <= bound deviating stages; non-trivial = >= 1 deviating stage; distinct = distinct (payload config, decisions, outcome)",
        "bounds": {"payload_configs": len(all_configs()), "deviating_stages": 3 if tier == "quick" else 4, "kinds": list(KINDS)},
        "assumptions": MANIFEST_INFO["level_note"].split("; "),
    }


def replay(data):
    c = data["cfg"]
    cfg = (tuple(c[0]), c[1], c[2], c[3], c[4])
    ctx, config, shared, how = execute(cfg, Chooser(data["choices"]))
    problems, outcome = check_execution(cfg, ctx, config, shared, how)
    outs = [e for e in shared if e[0] in rec.OUTCOMES]
    return (not problems), "cfg=%r\ndecisions=%r\noutcome=%r\ndelivered=%r\nproblems=%r" % (cfg, sorted(ctx.memo.items()), outcome, {k: (v[0], v[1][:60]) for k, v in (outs[0][3] or {}).items()} if outs else None, problems)
