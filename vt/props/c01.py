"""C01 — every run is bracketed and yields exactly one outcome; BaseExceptions propagate."""

import itertools

from testtools.testresult.real import ExtendedToStreamDecorator

from vt import proggen as pg
from vt import recorders as rec
from vt.explore.chooser import explore, obs_hash
from vt.runner import ShardResult

PROPERTY = "C01"
FLAVOURS = ("py26", "py27", "ext", "twisted", "tt", "stream", "none", "py27_falsy")


class FalsyPy27(rec.Py27):
    """A 2.7-style result that happens to be falsy (it has a length: a collecting result)."""

    def __len__(self):
        return 0

UNSUCCESSFUL = ("addError", "addFailure", "addUnexpectedSuccess")
FINAL_STATES = ("exists", "xfail", "uxsuccess", "success", "fail", "skip", "unknown")
DECORATORS = ("skip_method", "skipIf_method", "skipUnless_method", "skipIf_false", "skip_class", "xfail_decorator", "skip_empty_reason", "skipIf_empty_reason", "unittest_skip_bare", "run_test_with_default", "skip_nonstr_reason", "skip_surrogate_reason", "skip_none_reason")


def make_result(flavour):
    """-> (object passed to run(), log list, kind)"""
    if flavour == "py26":
        r = rec.Py26()
    elif flavour == "py27":
        r = rec.Py27()
    elif flavour == "py27_falsy":
        r = FalsyPy27()
    elif flavour == "ext":
        r = rec.Ext()
    elif flavour == "twisted":
        r = rec.Twisted()
    elif flavour in ("tt", "none"):
        r = rec.TT()
    elif flavour == "stream":
        s = rec.Stream()
        return ExtendedToStreamDecorator(s), s.log
    else:
        raise AssertionError(flavour)
    return r, r.log


def cleanup_actions(n):
    # n cleanups registered in setUp (after the up-call), ids "1".."n"
    return {"setUp": [("cleanup", str(i + 1)) for i in range(n)]} if n else {}


def shards(tier):
    out = []
    ncs = (0, 1, 2) if tier == "quick" else (0, 1, 2, 3)
    for flavour in FLAVOURS:
        for nc in ncs:
            for em in (False, True):
                for ff in (False, True):
                    out.append((flavour, nc, em, ff, None))
        for dec in DECORATORS:
            out.append((flavour, 1, False, False, dec))
        # a class-level force_failure ("known broken: fail whatever the tests do") on a decorated test
        for dec in ("skip_method", "skip_class", "xfail_decorator"):
            out.append((flavour, 1, False, True, dec))
    return out


def bound_for(tier, nc):
    if tier == "quick":
        return 3
    return 6 if nc <= 2 else 4


SKIP_NONSTR = "skip_nonstr"
MULTI_NESTED_KBI = "multi_nested_kbi"
pg.FLATTEN[SKIP_NONSTR] = (pg.SKIP,)
pg.FLATTEN[MULTI_NESTED_KBI] = (pg.ERROR, pg.KBI)
MULTI_EMPTY = "multi_empty"
pg.FLATTEN[MULTI_EMPTY] = (pg.ERROR,)  # nothing inside: the MultipleExceptions itself is the error
pg.FLATTEN[pg.RETVAL] = ()
SKIP_RAW_NONSTR = "skip_raw_nonstr"
pg.FLATTEN[SKIP_RAW_NONSTR] = (pg.SKIP,)
KINDS = pg.ALL_KINDS + (SKIP_NONSTR, MULTI_NESTED_KBI, MULTI_EMPTY, pg.RETVAL, SKIP_RAW_NONSTR)
_base_perform = pg.perform


def _perform(case, ctx, stage, kind):
    if kind == SKIP_NONSTR:
        # skipTest documents: the reason "must support being cast into a unicode string"
        ctx.raised.append((stage, kind, "%s!%s" % (stage, kind)))
        ctx.xlog.append(("raise", stage, kind))
        case.skipTest(42)
    if kind == SKIP_RAW_NONSTR:
        # "except ImportError as e: raise unittest.SkipTest(e)": the skip exception raised directly,
        # with something that is not a str
        ctx.raised.append((stage, kind, "%s!%s" % (stage, kind)))
        ctx.xlog.append(("raise", stage, kind))
        raise case.skipException(ImportError("no module named %s" % stage))
    if kind == MULTI_EMPTY:
        from testtools.runtest import MultipleExceptions

        ctx.raised.append((stage, kind, "%s!%s" % (stage, kind)))
        ctx.xlog.append(("raise", stage, kind))
        raise MultipleExceptions()  # (a composite whose parts all turned out fine, raised anyway)
    if kind == MULTI_NESTED_KBI:
        # a MultipleExceptions one of whose constituents is itself a MultipleExceptions carrying an
        # interrupt (what a composite fixture built from composite parts raises)
        import sys

        from testtools.runtest import MultipleExceptions

        marker = "%s!%s" % (stage, kind)
        ctx.raised.append((stage, kind, marker))
        ctx.xlog.append(("raise", stage, kind))
        infos = []
        try:
            raise pg.VerifError(marker + "/e")
        except pg.VerifError:
            infos.append(sys.exc_info())
        try:
            raise KeyboardInterrupt("%s!kbi" % stage)
        except KeyboardInterrupt:
            inner = sys.exc_info()
        try:
            raise MultipleExceptions(inner)
        except MultipleExceptions:
            infos.append(sys.exc_info())
        raise MultipleExceptions(*infos)
    return _base_perform(case, ctx, stage, kind)


pg.perform = _perform


def config_of(shard):
    flavour, nc, em, ff, dec = shard
    return pg.Config(actions=cleanup_actions(nc), kinds=KINDS, expect_mismatch=em, force_failure=ff, decorator=dec, teardown_pre_kinds=(pg.KBI, pg.ERROR))


def execute(config, flavour, chooser):
    ctx = pg.Ctx(config, chooser)
    case = pg.new_case(config, ctx)
    result, log = make_result(flavour)
    arg = result
    if flavour == "none":
        ctx.default_result = result
        arg = None
    try:
        case.run(arg)
        how = ("returned",)
    except BaseException as e:
        how = ("raised", type(e).__name__, str(e.args[0]) if e.args else "")
    return ctx, log, how


def normal_log(flavour, log):
    """Event names for the one test (bracketing run events filtered out)."""
    if flavour == "stream":
        out = []
        for e in log:
            if e[0] == "status":
                d = e[1]
                if d["test_status"] is not None:
                    out.append(("status", d["test_id"], d["test_status"]))
                elif d["file_name"] is not None:
                    out.append(("file", d["test_id"]))
                else:
                    out.append(("other", d["test_id"]))
            else:
                out.append((e[0],))
        return out
    return [(e[0],) for e in log]


def effective_kinds(config, model):
    """Flattened kinds of the exceptions user code raised, as RunTest sees them."""
    out = []
    for stage, k in model.raised:
        if config.decorator == "xfail_decorator" and stage == "test" and k not in pg.BASE_KINDS + pg.NON_EXCEPTION_KINDS:
            out.append((stage, pg.XFAIL))
            continue
        for f in pg.FLATTEN[k]:
            out.append((stage, f))
    ran = [s[1] for s in model.stages if s[0] == "run"]
    if config.decorator == "xfail_decorator" and "test" in ran:
        if not any(stage == "test" for stage, _ in model.raised):
            out.append(("test", pg.UXSUCCESS))
            out.sort(key=lambda sk: 0 if sk[0] in ("setUp", "setUp.pre") else 1 if sk[0] == "test" else 2)
    if model.skipped_by_decorator:
        pass  # nothing ran, the skip is the one outcome
    elif config.force_failure or ("test" in ran and config.expect_mismatch is True) or ("c:1" in ran and config.expect_mismatch == "cleanup"):
        # the forced failure is raised after everything else (also when setUp did not return
        # normally: a failed expectation must not be lost because setUp went on to skip)
        out.append(("forced", pg.FAIL))
    return out


def check_execution(config, flavour, ctx, log, how):
    """-> list of (clause, message)."""
    problems = []
    model = pg.ModelRun(config, ctx.memo)
    names = normal_log(flavour, log)
    outcome = None
    if flavour == "stream":
        evs = [n for n in names if n[0] in ("status", "file", "other")]
        tid = "prog.test_it"
        stat = [n for n in evs if n[0] == "status"]
        if any(n[1] != tid for n in evs):
            problems.append(("bracket", "stream event for a foreign test id: %r" % (evs,)))
        if not stat or stat[0][2] != "inprogress" or evs[0] != stat[0]:
            problems.append(("bracket", "first stream event is not 'inprogress': %r" % (evs,)))
        finals = [n for n in stat if n[2] in FINAL_STATES]
        if len(finals) != 1:
            problems.append(("one-outcome", "expected exactly one final status, got %r" % (stat,)))
        elif evs[-1] != finals[0]:
            problems.append(("bracket", "events after the final status: %r" % (evs,)))
        if len([n for n in stat if n[2] == "inprogress"]) != 1:
            problems.append(("bracket", "expected exactly one inprogress event: %r" % (stat,)))
        if finals:
            outcome = {"fail": "addError", "success": "addSuccess", "skip": "addSkip", "xfail": "addExpectedFailure", "uxsuccess": "addUnexpectedSuccess"}.get(finals[0][2], finals[0][2])
    else:
        core = [n[0] for n in names if n[0] not in ("startTestRun", "stopTestRun")]
        outs = [n for n in core if n in rec.OUTCOMES]
        if len(core) < 1 or core[0] != "startTest":
            problems.append(("bracket", "log does not begin with startTest: %r" % (core,)))
        if len(core) < 1 or core[-1] != "stopTest":
            problems.append(("bracket", "log does not end with stopTest: %r" % (core,)))
        if core.count("startTest") != 1 or core.count("stopTest") != 1:
            problems.append(("bracket", "startTest/stopTest not exactly once: %r" % (core,)))
        if len(outs) != 1:
            problems.append(("one-outcome", "expected exactly one outcome, got %r in %r" % (outs, core)))
        elif core != ["startTest", outs[0], "stopTest"]:
            problems.append(("bracket", "unexpected event sequence %r" % (core,)))
        if outs:
            outcome = outs[0]
        if flavour == "none":
            allnames = [n[0] for n in names]
            # run(None) creates and brackets its own result
            if allnames[:1] != ["startTestRun"] or allnames[-1:] != ["stopTestRun"]:
                problems.append(("default-result", "result=None run not bracketed by startTestRun/stopTestRun: %r" % (allnames,)))
    eff = effective_kinds(config, model)
    base = [(s, k) for s, k in eff if k in pg.BASE_KINDS]
    if base:
        names_ok = {"kbi": "KeyboardInterrupt", "sysexit": "SystemExit"}
        allowed = {(names_ok[k], "%s!%s" % (s, k)) for s, k in base}
        if how[0] != "raised":
            problems.append(
                ("propagate", "user code raised %r but run() returned normally" % (base,))
            )
        elif (how[1], how[2]) not in allowed:
            problems.append(("propagate", "run() raised %r, user code raised %r" % (how, base)))
        if outcome is not None:
            if len(eff) == 1:
                if outcome != "addError":
                    problems.append(("base-is-error", "sole exception %r reported as %s" % (base[0], outcome)))
            elif outcome not in UNSUCCESSFUL:
                problems.append(("base-is-error", "a non-Exception was raised (%r) but outcome is %s" % (base, outcome)))
    else:
        if how[0] != "returned":
            problems.append(("propagate", "no KeyboardInterrupt/SystemExit raised by user code, but run() raised %r" % (how,)))
    # BaseExceptions do not stop tearDown and the cleanups from running
    impl_stages = [e[1] for e in ctx.xlog if e[0] == "run"]
    exp_stages = [e[1] for e in model.stages if e[0] == "run"]
    if impl_stages != exp_stages:
        problems.append(("stages", "stages run %r, lifecycle model says %r" % (impl_stages, exp_stages)))
    return problems, outcome, model


def fingerprint(clause, config, flavour, ctx, model):
    eff = effective_kinds(config, model)
    if clause == "propagate":
        base = [k for _, k in eff if k in pg.BASE_KINDS]
        later = []
        seen_base = False
        for _, k in eff:
            if k in pg.BASE_KINDS:
                seen_base = True
                later = []
            elif seen_base:
                later.append(k)
        if base and later:
            return "C01/propagate/non-Exception-followed-by-later-exception"
        return "C01/propagate/other"
    return "C01/%s" % clause


def check_nested(res):
    """A test that runs another TestCase against the same result object - from its body, its
    tearDown or a cleanup (a test of a test framework does): each of the two tests still gets
    startTest, exactly one outcome and stopTest of its own, the inner bracket inside the outer."""
    import testtools

    for flavour in FLAVOURS:
        if flavour == "none":
            continue
        for site in ("test", "tearDown", "cleanup"):
            for inner_kind in ("pass", "fail"):
                for outer_kind in ("pass", "fail", "error"):
                    result, log = make_result(flavour)

                    class Inner(testtools.TestCase):
                        def test_inner(self):
                            if inner_kind == "fail":
                                self.fail("inner")

                        def id(self):
                            return "nested.inner"

                    def nested():
                        Inner("test_inner").run(result)

                    class Outer(testtools.TestCase):
                        def test_outer(self):
                            if site == "cleanup":
                                self.addCleanup(nested)
                            if site == "test":
                                nested()
                            if outer_kind == "fail":
                                self.fail("outer")
                            if outer_kind == "error":
                                raise pg.VerifError("outer")

                        def tearDown(self):
                            if site == "tearDown":
                                nested()
                            super().tearDown()

                        def id(self):
                            return "nested.outer"

                    try:
                        Outer("test_outer").run(result)
                        how = "returned"
                    except BaseException as e:
                        how = "raised %s" % type(e).__name__
                    res.evaluations += 1
                    res.traces_validated += 1
                    if flavour == "stream":
                        per = {}
                        for e in log:
                            if e[0] == "status" and e[1]["test_status"] is not None:
                                per.setdefault(e[1]["test_id"], []).append(e[1]["test_status"])
                        want = {"nested.outer": ["inprogress", {"pass": "success", "fail": "fail", "error": "fail"}[outer_kind]], "nested.inner": ["inprogress", {"pass": "success", "fail": "fail"}[inner_kind]]}
                        got = per
                    else:
                        per = {}
                        for e in log:
                            if e[0] in ("startTest", "stopTest") or e[0] in rec.OUTCOMES:
                                per.setdefault(e[1].id(), []).append(e[0])
                        want = {"nested.outer": ["startTest", {"pass": "addSuccess", "fail": "addFailure", "error": "addError"}[outer_kind], "stopTest"], "nested.inner": ["startTest", {"pass": "addSuccess", "fail": "addFailure"}[inner_kind], "stopTest"]}
                        got = per
                    if got != want or how != "returned":
                        res.violation("C01/nested-run", "a test whose %s runs another test against the same %s result (inner %s, outer %s): events per test %r (run() %s), expected %r" % (site, flavour, inner_kind, outer_kind, got, how, want), {"nested": True})


def run_shard(shard, tier, seed):
    res = ShardResult()
    flavour = shard[0]
    if shard == (FLAVOURS[0], 0, False, False, None):
        check_nested(res)
    config = config_of(shard)
    bound = bound_for(tier, shard[1])

    def run_one(ch):
        ctx, log, how = execute(config, flavour, ch)
        return (ctx, log, how)

    def check(ch, obs):
        ctx, log, how = obs
        problems, outcome, model = check_execution(config, flavour, ctx, log, how)
        res.evaluations += 1
        if ch.cost:
            res.distinct.add(obs_hash((shard, tuple(e for e in ctx.xlog), outcome, how)))
        if len(res.samples) < 2 and ch.cost >= 2:
            res.add_sample(
                {
                    "flavour": flavour,
                    "config": config.describe(),
                    "decisions": [[s, str(k)] for (s, _), k in sorted(ctx.memo.items())],
                    "outcome": outcome,
                    "run": list(how),
                }
            )
        for clause, msg in problems:
            res.violation(
                fingerprint(clause, config, flavour, ctx, model),
                "%s [flavour=%s config=%s decisions=%s]" % (msg, flavour, config.describe(), sorted(ctx.memo.items())),
                {"shard": list(shard), "choices": ch.choices},
            )

    class _Obs:
        pass

    def run_one_h(ch):
        return run_one(ch)

    # obs hash in the kernel is only used for its own stats; give it something cheap
    stats = explore(lambda ch: _wrap(run_one(ch)), lambda ch, o: check(ch, o.v), bound, order_seed=seed)
    res.states += stats.choice_points + 1
    res.transitions += stats.edges
    res.traces_validated += stats.executions
    res.notes["bound_completed"] = bound
    res.notes["max_depth"] = stats.max_depth
    return res


class _wrap:
    __slots__ = ("v",)

    def __init__(self, v):
        self.v = v

    def __repr__(self):
        return ""


def meta(tier):
    return {
        "technique": "stateless DFS over stage-behaviour choice points of generated TestCase programs run on the real RunTest, checked against a lifecycle reference model",
        "rule": "every choice sequence with <= bound deviating stages (a stage that does anything but return) per configuration; non-trivial = >= 1 deviating stage; distinct = distinct (config, execution log, outcome, propagation)",
        "bounds": {
            "deviating_stages": "3 (quick) / all (thorough, <=2 cleanups), 4 with 3 cleanups",
            "cleanups": "0..2 quick, 0..3 thorough",
            "flavours": list(FLAVOURS),
            "kinds": list(pg.ALL_KINDS),
            "decorators": list(DECORATORS),
        },
        "assumptions": [
            "programs always up-call setUp/tearDown",
            "when several exceptions were raised and one is a KeyboardInterrupt/SystemExit, any unsuccessful outcome is accepted (the statement fixes addError only for a sole exception)",
        ],
    }


def replay(data):
    from vt.explore.chooser import Chooser

    if data.get("nested"):
        res = ShardResult()
        check_nested(res)
        return not res.violations, "\n".join(v["message"] for v in res.violations)
    shard = tuple(data["shard"])
    config = config_of(shard)
    ch = Chooser(data["choices"])
    ctx, log, how = execute(config, shard[0], ch)
    problems, outcome, model = check_execution(config, shard[0], ctx, log, how)
    text = "shard=%r\ndecisions=%r\nxlog=%r\nlog=%r\nrun()=%r\nproblems=%r" % (
        shard,
        sorted(ctx.memo.items()),
        ctx.xlog,
        normal_log(shard[0], log),
        how,
        problems,
    )
    return (not problems), text


MANIFEST_INFO = {
    "engine": "A",
    "design_ref": "DESIGN.md section 5, C01",
    "technique": "stateless DFS (deviation-bounded, exhaustive) over stage-behaviour choice points of generated TestCase programs executed by the real RunTest against seven result flavours; lifecycle reference model as oracle",
    "level_text": "Every program with at most N deviating stages (N=3 quick; all stages thorough) over setUp/test/tearDown/0..3 cleanups x 15 behaviours (incl. returning a value, a non-str skip reason through skipTest() and through the skip exception itself, an empty and a nested MultipleExceptions, tearDown raising before its up-call) x 8 result flavours (one of them falsy) x expectThat/force_failure/skip and expected-failure decorators (with, without, with a non-str, None or lone-surrogate reason; also combined with a class-level force_failure) and run_test_with naming the default runner is executed on the real code and its result log, propagation and stage order are compared with a reference lifecycle model. Exhaustive within those bounds, which contain every pair and triple of (kind, stage) the statement quantifies over. In addition, for every result flavour, a test that runs another TestCase against the same result from its body, its tearDown or a cleanup (3 x 2 x 3 shapes): both brackets intact.",
    "level_note": "Trusts the harness recorders and the lifecycle model in vt/proggen.py; scope is finite (<=3 cleanups, one test method); programs always up-call.",
}
