"""C14 — Deferred-returning tests succeed iff all completed cleanly; reactor left clean."""

import gc
import itertools

from twisted.internet import defer
from twisted.python import log as tlog

import testtools
from testtools.twistedsupport import (
    AsynchronousDeferredRunTest,
    AsynchronousDeferredRunTestForBrokenTwisted,
    flush_logged_errors,
)
from testtools.twistedsupport._runtest import _get_global_publisher_and_observers

from vt import recorders as rec
from vt.proggen import EqualsAnything
from vt.explore import vreactor
from vt.explore.chooser import Chooser, explore, obs_hash
from vt.runner import ShardResult

PROPERTY = "C14"

# Before logging "begins" Twisted prints critical events (unhandled errors in Deferreds) to stderr;
# begin logging to a null observer once per process so the check's output stays readable.
try:
    from twisted.logger import globalLogBeginner

    globalLogBeginner.beginLoggingTo([lambda event: None], redirectStandardIO=False, discardBuffer=True)
except Exception:
    pass

MANIFEST_INFO = {
    "engine": "D",
    "design_ref": "DESIGN.md section 5, C14",
    "technique": "stateless deviation-bounded DFS over stage behaviours of generated Deferred-returning TestCases run by the real AsynchronousDeferredRunTest on the real SelectReactor under a virtual clock; timeout placement, tie order and interrupt instant enumerated; async lifecycle timeline model",
    "level_text": "Every program whose setUp/test/tearDown/0-2 cleanups each pick one of 21 behaviours (return, register a further cleanup (also from inside a cleanup), raise error/failure/skip/SystemExit, Deferred failing with SystemExit, Deferred firing a few zero-delay reactor iterations after its due time, Deferred already fired / firing or failing after 1 or 2 time units / never firing, leaving a delayed call, logging an error with or without flushing it, dropping a failed Deferred) with at most 3 (quick) / 4 (thorough, default logging options; 3 for the other three combinations) deviating stages, for 6 timeouts placed before/at/after the stage boundaries (and a timeout of 0), with <=1 interrupt at any reactor instant, both runner variants and all four logging-option combinations, is executed; bracket, success-iff-clean, error on timeout/interrupt (+stop), an unsuccessful outcome whenever a stage raised a failure or an error (no masking by a later skip), a timed-out run ending at the timeout instant, stage sequencing by virtual timestamps, reactor cleanliness and log-observer restoration are checked on every execution; after every abandoned run the same test object is run again (nothing left over from the first run may run), and a reactor loop that could never end is reported as a hang.",
    "level_note": "Virtual clock on the real SelectReactor; garbage collection of a dropped failed Deferred relies on CPython reference counting (deterministic); when the chain completes at exactly the timeout instant the verdict must follow the tie order chosen for that execution (timeout first: error; Deferred first and nothing left to wait for: success).",
}


class StageError(ValueError):
    pass


class EmptyBatchError(Exception):
    """An exception that happens to be falsy (it carries an empty collection)."""

    def __len__(self):
        return 0


KINDS = (
    "ret",
    "raise_error",
    "raise_failure",
    "raise_skip",
    "raise_falsy_error",
    "fail1_falsy",
    "fired",
    "fire1",
    "fire2",
    "fail1",
    "failed",
    "never",
    "junk",
    "junk_chain",
    "logerr",
    "logerr_flushed",
    "drop_failed",
    "raise_sysexit",
    "fail1_sysexit",
    "fire1_hops",
    "logerr_new",
    "reg_cleanup",
)
DELAY = {"fire1": 1.0, "fire2": 2.0, "fail1": 1.0, "fail1_falsy": 1.0, "fail1_sysexit": 1.0, "fire1_hops": 1.0}
# exceptions that do not derive from Exception: reported as an error AND re-raised by run()
NON_EXCEPTION = ("raise_sysexit", "fail1_sysexit")
DIRTY_RETURN = ("junk", "junk_chain", "logerr", "logerr_new", "drop_failed")
FAILING = ("raise_error", "raise_failure", "raise_skip", "raise_falsy_error", "fail1_falsy", "fail1", "failed", "raise_sysexit", "fail1_sysexit")
TIMEOUTS = (0.5, 1.0, 1.5, 2.0, 3.5, 100.0)


class Ctx:
    def __init__(self, chooser, reactor):
        self.chooser = chooser
        self.reactor = reactor
        self.decisions = []  # (stage, kind)
        self.stage_log = []  # (stage, start time)
        self.junk_calls = []


def behave(case, ctx, stage):
    # (the cleanup that a stage registers does not register another one)
    menu = KINDS if not stage.startswith("x:") else KINDS[:-1]
    k = menu[ctx.chooser.choose(("beh", stage), len(menu))]
    ctx.decisions.append((stage, k))
    ctx.stage_log.append((stage, ctx.reactor.rel()))
    r = ctx.reactor
    if k == "ret":
        return None
    if k == "raise_error":
        raise StageError(stage)
    if k == "raise_failure":
        case.fail(stage)
    if k == "raise_skip":
        case.skipTest(stage)
    if k == "raise_falsy_error":
        raise EmptyBatchError()
    if k == "fail1_falsy":
        d = defer.Deferred()
        r.callLater(1.0, d.errback, EmptyBatchError())
        return d
    if k == "fired":
        # (fired with a value that compares equal to anything - mock.ANY is one)
        return defer.succeed(EqualsAnything(stage))
    if k in ("fire1", "fire2"):
        d = defer.Deferred()
        r.callLater(DELAY[k], d.callback, stage)
        return d
    if k == "fail1":
        d = defer.Deferred()
        r.callLater(1.0, d.errback, StageError(stage))
        return d
    if k == "failed":
        return defer.fail(StageError(stage))
    if k == "never":
        return defer.Deferred()
    if k == "junk":
        ctx.junk_calls.append(r.callLater(50.0, lambda: None))
        return None
    if k == "junk_chain":
        # a call that is due at once and, when it fires, schedules later work
        r.callLater(0, lambda: ctx.junk_calls.append(r.callLater(30.0, lambda: None)))
        return None
    if k == "logerr":
        tlog.err(StageError(stage))
        return None
    if k == "logerr_new":
        # the same, through the twisted.logger API (what Twisted itself uses nowadays)
        from twisted.logger import Logger
        from twisted.python.failure import Failure

        Logger(namespace="vt").failure("stage failed", Failure(StageError(stage)))
        return None
    if k == "logerr_flushed":
        tlog.err(StageError(stage))
        flush_logged_errors(StageError)
        return None
    if k == "drop_failed":
        defer.fail(StageError(stage))  # dropped at once: reference counting collects it here
        return None
    if k == "reg_cleanup":
        # registers one more cleanup - also when this stage is itself a cleanup
        case.addCleanup(_cleanup, case, "x:" + stage)
        return None
    if k == "raise_sysexit":
        raise SystemExit(stage)
    if k == "fail1_sysexit":
        d = defer.Deferred()
        r.callLater(1.0, d.errback, SystemExit(stage))
        return d
    if k == "fire1_hops":
        # the Deferred fires at t+1 as well, but two reactor iterations after the call that is due
        # then (each hop schedules the next with a zero delay)
        d = defer.Deferred()
        r.callLater(1.0, lambda: r.callLater(0, lambda: r.callLater(0, d.callback, stage)))
        return d
    raise AssertionError(k)


_CLASSES = {}


def make_class(ncleanups):
    if ncleanups in _CLASSES:
        return _CLASSES[ncleanups]

    class AProg(testtools.TestCase):
        _ctx = None

        def setUp(self):
            super().setUp()
            if ncleanups == "dup":
                # one cleanup registered twice with identical arguments, another one in between
                self.addCleanup(_cleanup_dup, self)
                self.addCleanup(_cleanup, self, "c1")
                self.addCleanup(_cleanup_dup, self)
            for i in range(ncleanups if ncleanups != "dup" else 0):
                if i == 0:
                    # (keyword arguments are the cleanup's business, whatever they are called)
                    self.addCleanup(_cleanup, self, "c%d" % (i + 1), f=1, function=2)
                else:
                    self.addCleanup(_cleanup, self, "c%d" % (i + 1))
            return behave(self, self._ctx, "setUp")

        def test_it(self):
            return behave(self, self._ctx, "test")

        def tearDown(self):
            super().tearDown()
            return behave(self, self._ctx, "tearDown")

        def id(self):
            return "aprog.test_it"

    _CLASSES[ncleanups] = AProg
    return AProg


def _cleanup_dup(case):
    n = case._ctx.dup_runs = getattr(case._ctx, "dup_runs", 0) + 1
    return behave(case, case._ctx, "d#%d" % n)


def _cleanup(case, name, f=None, function=None):
    return behave(case, case._ctx, name)


def model(ncleanups, decisions, timeout, stage_first_at_tie=False):
    """-> dict(sequence, clean (True/False/None=ambiguous tie), timeout (True/False/None))"""
    dec = dict(decisions)
    seq = ["setUp"]
    t = 0.0
    clean = True
    timed_out = False
    pending_logged = 0
    tie_timeout = False
    if ncleanups == "dup":
        planned = ["setUp", "test", "tearDown", "d#1", "c1", "d#2"]
    else:
        planned = ["setUp", "test", "tearDown"] + ["c%d" % i for i in range(ncleanups, 0, -1)]
    out_seq = []
    i = 0
    stages = list(planned)
    while stages:
        st = stages.pop(0)
        out_seq.append(st)
        k = dec.get(st, "ret")
        if tie_timeout and (k in DELAY or k == "never"):
            break  # started in the iteration of the timeout, but it will never be waited for
        if k == "never":
            timed_out = True
            clean = False
            break
        if k in DELAY:
            t += DELAY[k]
            if t > timeout:
                timed_out = True
                clean = False
                break
            if t == timeout:
                # the stage's Deferred fires at the very instant the timeout elapses: the tie order
                # (a chooser decision) says which of the two calls the reactor runs first.  Either
                # way the rest of the chain keeps running within that same reactor iteration until
                # a stage has to wait again.
                remaining_sync = all(dec.get(x, "ret") not in DELAY and dec.get(x, "ret") != "never" for x in _following(stages, st, k))
                # (a Deferred that fires some iterations after the timeout's always loses the tie)
                if k == "fire1_hops" or not (stage_first_at_tie and remaining_sync):
                    tie_timeout = True
        if k in ("logerr", "logerr_new"):
            pending_logged += 1
        elif k == "logerr_flushed":
            pending_logged = 0  # flush_logged_errors(StageError) also flushes earlier ones
        if k in FAILING or k in ("junk", "junk_chain", "drop_failed"):
            clean = False
        if st == "setUp" and k in FAILING:
            stages = [s for s in stages if s not in ("test", "tearDown")]
        if k == "reg_cleanup":
            # the most recently registered cleanup runs first among those still owed
            pos = 0
            while pos < len(stages) and stages[pos] in ("test", "tearDown"):
                pos += 1
            stages.insert(pos, "x:" + st)
    if tie_timeout:
        timed_out = True
        clean = False
    if pending_logged:
        clean = False
    if timed_out is None and clean:
        clean = None  # (not reached any more: ties are decided by the recorded tie order)
    return {"sequence": out_seq, "clean": clean, "timed_out": timed_out}


def _following(stages, st, k):
    """Stages that will follow ``st`` (whose behaviour is k) in the model sequence."""
    rest = list(stages)
    if st == "setUp" and k in FAILING:
        rest = [s for s in rest if s not in ("test", "tearDown")]
    return rest


class _AlwaysDefault:
    """Chooser stand-in for the follow-up test: every behaviour and tie takes its default."""

    trace = ()

    def choose(self, label, n, costs=None):
        return 0


class ForeignObserver:
    def __init__(self):
        self.events = 0

    def __call__(self, event):
        self.events += 1


def execute(config, chooser):
    variant, suppress, store, timeout, ncleanups, foreign = config
    gc.disable()
    reactor = vreactor.get_reactor()
    if reactor.dirty():
        reactor.scrub()
    problems = []
    ctx = Ctx(chooser, reactor)
    cls = make_class(ncleanups)
    runner_cls = AsynchronousDeferredRunTest if variant == "plain" else AsynchronousDeferredRunTestForBrokenTwisted
    factory = runner_cls.make_factory(reactor=reactor, timeout=timeout, suppress_twisted_logging=suppress, store_twisted_logs=store)
    case = cls("test_it", runTest=factory)
    case._ctx = ctx
    result = rec.Ext()
    fo = None
    publisher, _ = _get_global_publisher_and_observers()
    if foreign:
        fo = ForeignObserver()
        publisher.addObserver(fo)
    _, before = _get_global_publisher_and_observers()
    legacy_before = list(tlog.theLogPublisher.observers)
    reactor.arm(chooser, max_interrupts=1, ties=True)
    started_at = reactor.seconds()
    try:
        try:
            case.run(result)
            how = ("returned",)
        except BaseException as e:
            how = ("raised", type(e).__name__, str(e)[:200])
        ended_at = reactor.seconds() - started_at
        if reactor.blocked_forever:
            problems.append(("hang", "the reactor was left spinning with %s" % (reactor.blocked_forever,)))
        interrupt_at = None
        for e in reactor.log:
            if e[0] == "SIGINT":
                interrupt_at = e[1]
        stages_at_end = len(ctx.stage_log)
        if ctx.stage_log and ctx.stage_log[-1][0].startswith(("c", "x:", "d#")) and dict(ctx.decisions).get(ctx.stage_log[-1][0]) in tuple(DELAY) + ("never",):
            # the run was abandoned while a cleanup's Deferred was unfired (timeout/interrupt): the
            # suspended cleanup chain is garbage now.  Finalising it must not start anything.
            # (the young generations only: the chain was created during this execution)
            gc.collect(1)
        reactor.disarm()
        _, after = _get_global_publisher_and_observers()
        legacy_after = list(tlog.theLogPublisher.observers)
        # ---- oracle
        names = [e[0] for e in result.log]
        outs = [n for n in names if n in rec.OUTCOMES]
        stage_first = any(t[0][0] == "tie" and abs(t[0][1] - timeout) < 1e-6 and t[2] == 1 for t in chooser.trace if isinstance(t[0], tuple))
        m = model(ncleanups, ctx.decisions, timeout, stage_first_at_tie=stage_first)
        decided = [k for _, k in ctx.decisions]
        if how[0] != "returned" and not (how[1] == "SystemExit" and any(k in NON_EXCEPTION for k in decided)):
            problems.append(("run-raised", "run() raised %r" % (how,)))
        if how[0] == "returned" and "raise_sysexit" in decided and interrupt_at is None and m["timed_out"] is False:
            problems.append(("not-propagated", "a stage raised SystemExit but run() returned normally (outcomes %r)" % (outs,)))
        core = [n for n in names if n in ("startTest", "stopTest") or n in rec.OUTCOMES]
        if len(outs) != 1 or core != ["startTest", outs[0] if outs else None, "stopTest"]:
            problems.append(("bracket", "result log %r" % (names,)))
        outcome = outs[0] if len(outs) == 1 else None
        interrupted = interrupt_at is not None
        if outcome is not None:
            if interrupted:
                if outcome != "addError":
                    problems.append(("interrupt", "interrupted at %r but outcome is %s" % (interrupt_at, outcome)))
                if not result.shouldStop:
                    problems.append(("interrupt-stop", "interrupted at %r but the result was not asked to stop" % (interrupt_at,)))
            else:
                if m["timed_out"] is True and outcome != "addError":
                    problems.append(("timeout", "timeout %s elapsed before the stages completed but outcome is %s" % (timeout, outcome)))
                if m["timed_out"] is True and abs(ended_at - timeout) > 1e-3:
                    problems.append(("timeout-instant", "the run was given %s time units and timed out, but it ended at %s" % (timeout, ended_at)))
                if m["clean"] is True and outcome != "addSuccess":
                    problems.append(("clean-not-success", "every stage completed cleanly within the timeout but outcome is %s" % outcome))
                if m["clean"] is False and outcome == "addSuccess":
                    problems.append(("success-not-clean", "outcome is addSuccess although the model says the run was not clean"))
                if result.shouldStop:
                    problems.append(("spurious-stop", "result asked to stop without an interrupt"))
            bad = [(s, k) for s, k in ctx.decisions if k in FAILING and k != "raise_skip"]
            if bad and outcome not in ("addError", "addFailure"):
                # (C03's clause under this runner: what a later stage raises - a skip - never
                # downgrades the failure or error of an earlier one)
                problems.append(("masked", "stages %r raised a failure or an error but the outcome is %s" % (bad, outcome)))
        # stage sequencing (virtual timestamps)
        seq = [s for s, _ in ctx.stage_log]
        if seq != m["sequence"][: len(seq)]:
            problems.append(("stage-order", "stages ran as %r, model sequence %r" % (seq, m["sequence"])))
        elif not interrupted and m["timed_out"] is False and seq != m["sequence"]:
            problems.append(("stage-order", "stages ran as %r, model sequence %r" % (seq, m["sequence"])))
        if len(ctx.stage_log) > stages_at_end:
            problems.append(("stage-after-end", "stage(s) %r started after run() had returned (when the abandoned cleanup chain was finalised)" % ([s for s, _ in ctx.stage_log[stages_at_end:]],)))
            del ctx.stage_log[stages_at_end:]
            del ctx.decisions[stages_at_end:]
        dec = dict(ctx.decisions)
        for (s1, t1), (s2, t2) in zip(ctx.stage_log, ctx.stage_log[1:]):
            need = t1 + DELAY.get(dec[s1], 0.0)
            if t2 + 1e-4 < need:
                problems.append(("stage-wait", "%s started at %s before %s (started %s, %s) had fired" % (s2, t2, s1, t1, dec[s1])))
        # reactor and observers afterwards
        pend = reactor.getDelayedCalls()
        if pend:
            problems.append(("reactor-dirty", "delayed calls left in the reactor: %r" % (pend,)))
        if reactor.running:
            problems.append(("reactor-dirty", "reactor still running"))
        if sorted(map(id, before)) != sorted(map(id, after)):
            problems.append(("observers", "global log observers before %r, after %r" % (before, after)))
        if sorted(map(id, legacy_before)) != sorted(map(id, legacy_after)):
            problems.append(("observers", "legacy log observers before %r, after %r" % (legacy_before, legacy_after)))
        obs = (tuple(ctx.decisions), outcome, interrupt_at, tuple(seq))
        if (interrupted or m["timed_out"]) and not problems and ncleanups != "dup":
            # the run was abandoned (cleanups may never have been reached): the SAME test object run
            # again, nothing going wrong this time, runs its own stages and nothing left over
            ctx3 = Ctx(_AlwaysDefault(), reactor)
            case._ctx = ctx3
            result3 = rec.Ext()
            reactor.scrub()
            reactor.arm(_AlwaysDefault(), max_interrupts=0, ties=False)
            try:
                case.run(result3)
                outs3 = [e[0] for e in result3.log if e[0] in rec.OUTCOMES]
            except BaseException as e:
                outs3 = ["run() raised %s" % type(e).__name__]
            reactor.disarm()
            seq3 = [s for s, _ in ctx3.stage_log]
            want3 = model(ncleanups, [], 100.0)["sequence"]
            if outs3 != ["addSuccess"] or seq3 != want3:
                problems.append(("rerun-after-abandoned-run", "the same test object run again after its run was abandoned: outcomes %r, stages %r (expected addSuccess, %r)" % (outs3, seq3, want3)))
            case._ctx = ctx
        if any(k in ("logerr", "logerr_new") for _, k in ctx.decisions) and (interrupted or m["timed_out"]):
            # the run was abandoned with an error logged and not flushed: the NEXT test (same
            # process, same runner) must not inherit it
            ctx2 = Ctx(_AlwaysDefault(), reactor)
            case2 = make_class(0)("test_it", runTest=factory)
            case2._ctx = ctx2
            result2 = rec.Ext()
            reactor.scrub()
            reactor.arm(_AlwaysDefault(), max_interrupts=0, ties=False)
            try:
                case2.run(result2)
                outs2 = [e[0] for e in result2.log if e[0] in rec.OUTCOMES]
            except BaseException as e:
                outs2 = ["run() raised %s" % type(e).__name__]
            reactor.disarm()
            if outs2 != ["addSuccess"]:
                problems.append(("next-test-polluted", "a clean test run right after this one gave %r (details %r)" % (outs2, [sorted((e[3] or {}).keys()) for e in result2.log if e[0] in rec.OUTCOMES and len(e) > 3])))
    finally:
        reactor.disarm()
        if fo is not None:
            try:
                publisher.removeObserver(fo)
            except Exception:
                pass
        # restore anything a broken run left behind so that the next execution starts clean
        _, now = _get_global_publisher_and_observers()
        for o in now:
            if not any(o is b for b in before) or (fo is not None and o is fo):
                try:
                    publisher.removeObserver(o)
                except Exception:
                    pass
        _, now = _get_global_publisher_and_observers()
        for b in before:
            if b is not fo and not any(b is o for o in now):
                publisher.addObserver(b)
        reactor.scrub()
        flush_logged_errors()
        gc.enable()
    return obs, problems, ctx


def configs(tier):
    out = []
    if tier == "quick":
        for timeout in TIMEOUTS:
            for nc in (0, 1, 2):
                out.append(("plain", True, True, timeout, nc, nc == 1))
        for timeout in (1.0, 3.5, 100.0):
            out.append(("broken", True, True, timeout, 1, True))
        out.append(("broken", True, True, 100.0, 2, False))
        out.append(("plain", True, True, 100.0, "dup", False))
        # no time to wait at all (only Deferreds that have fired already will do)
        out.append(("plain", True, True, 0, 1, True))
        for suppress, store in ((True, False), (False, True), (False, False)):
            for variant in ("plain", "broken"):
                for timeout in (1.5, 100.0):
                    out.append((variant, suppress, store, timeout, 1, True))
        return out
    for variant in ("plain", "broken"):
        for suppress, store in itertools.product((True, False), repeat=2):
            for timeout in TIMEOUTS:
                for nc in (0, 1, 2):
                    out.append((variant, suppress, store, timeout, nc, nc == 1))
        out.append((variant, True, True, 100.0, "dup", False))
        out.append((variant, True, True, 1.5, "dup", False))
        out.append((variant, True, True, 0, 1, True))
    return out


def bound_for(tier, config):
    """Deviating stages / ties / interrupts per execution: 3; in the thorough tier 4 for the default
    logging options (suppression and capture on), which is where the runner is normally used."""
    if tier == "quick":
        return 3
    return 4 if (config[1] and config[2] and config[4] != "dup") else 3


def shards(tier):
    from vt.explore.chooser import first_level_prefixes

    out = []
    for config in configs(tier):
        bound = bound_for(tier, config)
        out.append((config, None))
        for p in first_level_prefixes(lambda ch: execute(config, ch), bound):
            out.append((config, tuple(p)))
    vreactor.discard_reactor()
    return out


def run_shard(shard, tier, seed):
    config, prefix = shard
    res = ShardResult()
    bound = bound_for(tier, config)

    def check(ch, o):
        obs, problems, ctx = o.v
        res.evaluations += 1
        if ch.cost:
            res.distinct.add(obs_hash((config, obs)))
        if len(res.samples) < 1 and ch.cost >= 2:
            res.add_sample({"config": list(config), "decisions": [list(d) for d in ctx.decisions], "outcome": obs[1], "interrupt_at": obs[2]})
        for clause, msg in problems:
            res.violation("C14/%s" % clause, "%s [config %r decisions %r]" % (msg, config, ctx.decisions), {"config": list(config), "choices": ch.choices})

    stats = explore(lambda ch: _W(execute(config, ch)), check, bound, prefix=prefix or (), root_only=prefix is None, order_seed=seed)
    res.states += stats.choice_points + (1 if prefix is None else 0)
    res.transitions += stats.edges + (0 if prefix is None else 1)
    res.traces_validated += stats.executions
    res.notes["deviation_bound_max"] = bound
    vreactor.discard_reactor()
    return res


class _W:
    __slots__ = ("v",)

    def __init__(self, v):
        self.v = v

    def __repr__(self):
        return ""


def meta(tier):
    return {
        "technique": MANIFEST_INFO["technique"],
        "rule": "per configuration (runner variant, suppress/store options, timeout, cleanups, foreign observer): every choice sequence with <= bound deviations, a deviation being a stage that does not simply return, a tie resolved the non-default way, or a delivered interrupt; non-trivial = >= 1 deviation; distinct = distinct (config, decisions, outcome, interrupt instant, stage sequence)",
        "bounds": {"deviations": "3" if tier == "quick" else "4 with the default logging options, 3 otherwise", "timeouts": list(TIMEOUTS), "behaviours": list(KINDS), "cleanups": [0, 1, 2], "interrupts": 1},
        "assumptions": ["virtual clock on the real SelectReactor", "a chain completing exactly at the timeout instant is judged by the tie order recorded for that execution (both orders are explored)", "on timeout or interrupt the remaining stages are not required to run"],
    }


def replay(data):
    config = tuple(data["config"])
    obs, problems, ctx = execute(config, Chooser(data["choices"]))
    return (not problems), "config=%r\ndecisions=%r\nstage log=%r\nobservation=%r\nproblems=%r" % (config, ctx.decisions, ctx.stage_log, obs, problems)
