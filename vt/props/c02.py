"""C02 — stages run in order; every cleanup runs exactly once, LIFO, whatever failed."""

import itertools

import fixtures

from vt import proggen as pg
from vt import recorders as rec
from vt.explore.chooser import Chooser, explore, obs_hash
from vt.props import c01
from vt.runner import ShardResult

PROPERTY = "C02"

MANIFEST_INFO = {
    "engine": "A",
    "design_ref": "DESIGN.md section 5, C02",
    "technique": "stateless deviation-bounded DFS over stage/cleanup/fixture behaviours of generated TestCase programs whose cleanups, patches and (nested) fixtures are registered at every site (setUp before/after the up-call, test, tearDown, inside another cleanup); execution log compared with the stack-discipline lifecycle model; second run() of the same instance replayed from memoised decisions",
    "level_text": "For every ordered selection of up to 3 registrations from 25 kinds (plus two registration sets on an expectedFailure-decorated method; a patched class attribute that overrides a base class's with a falsy value, the same cleanup registered twice with another one in between, patch of a property-backed attribute, patch of a staticmethod / classmethod of a class, of a staticmethod a subclass inherits, cleanup at 4 sites (one with keyword arguments named fn, result, function and f), cleanup registered by a cleanup, patch of an existing/missing attribute incl. double patch, fixture at 3 sites, nested fixture, a fixture whose getDetails raises after a successful setUp, an addOnException handler that itself raises when told about an exception of the test method or tearDown) and every program with at most 2 (quick) / 3 (thorough) deviating stages or fixture hooks, the real run is compared with the model: setUp first, test+tearDown iff setUp returned, then the cleanup stack popped to empty (each registration exactly once, LIFO, BaseExceptions included), patched attributes restored, a second run() of the same instance produces the same log and outcome, and a third run in which nothing raises any more is a clean success. Two clones of one prototype (clone_test_with_new_id; also of an expectedFailure-decorated test) are additionally run as two threads under the scheduler, every stage body being a scheduling point (<= 2 preemptions/deviations): each clone must run exactly its own cleanups.",
    "level_note": "Programs always up-call; fixtures use the fixtures 4.x _setUp protocol; attribute writes on the patched object are logged by the object itself.",
}

REGS = (
    "cleanup@setUp.pre",
    "cleanup@setUp",
    "cleanup@test",
    "cleanup@tearDown",
    "cleanup_kw@test",
    "cleanup_by_cleanup@setUp",
    "cleanup_by_cleanup@test",
    "patch_existing@setUp",
    "patch_missing@test",
    "patch_existing@test",
    "patch_none@test",
    "patch_missing_to_none@setUp",
    "fixture@setUp",
    "fixture@test",
    "fixture@tearDown",
    "nested_fixture@setUp",
    "fixture_baddetails@test",
    "fixture_baddetails@setUp",
    "onexc_raiser@setUp",
    "patch_staticmethod@test",
    "patch_classmethod@setUp",
    "patch_inherited_staticmethod@test",
    "patch_property@test",
    "dup_cleanup@test",
    "patch_overriding_falsy@test",
)

FX_SETUP_MENU = (pg.RET, pg.ERROR, pg.KBI)
FX_CLEAN_MENU = (pg.RET, pg.ERROR)


class HandlerBroke(Exception):
    """Raised by an addOnException handler (not by a stage or a cleanup)."""


class VFixture(fixtures.Fixture):
    def __init__(self, ctx, fid, inner=None, bad_details=False):
        super().__init__()
        self._ctx = ctx
        self._fid = fid
        self._inner = inner
        self._bad_details = bad_details

    def getDetails(self):
        if self._bad_details:
            # setUp worked, but collecting the details does not (a log file that went away, say)
            stage = "fx:%s.getDetails" % self._fid
            self._ctx.raised.append((stage, pg.ERROR, "%s!error" % stage))
            raise pg.VerifError("%s!error" % stage)
        return super().getDetails()

    def _setUp(self):
        ctx = self._ctx
        stage = "fx:%s.setUp" % self._fid
        ctx.xlog.append(("run", stage))
        if self._inner is not None:
            self.useFixture(VFixture(ctx, self._inner))
        self.addCleanup(self._clean)
        k = ctx.decide(stage, (pg.RET,) if self._bad_details else FX_SETUP_MENU)
        _raise(ctx, stage, k)

    def _clean(self):
        ctx = self._ctx
        stage = "fx:%s.clean" % self._fid
        ctx.xlog.append(("run", stage))
        k = ctx.decide(stage, FX_CLEAN_MENU)
        _raise(ctx, stage, k)


def _raise(ctx, stage, k):
    if k == pg.RET:
        return
    ctx.raised.append((stage, k, "%s!%s" % (stage, k)))
    ctx.xlog.append(("raise", stage, k))
    if k == pg.ERROR:
        raise pg.VerifError("%s!%s" % (stage, k))
    if k == pg.KBI:
        raise KeyboardInterrupt("%s!%s" % (stage, k))
    raise AssertionError(k)


def do_fixture(case, ctx, site, action):
    _, fid, inner = action
    case.useFixture(VFixture(ctx, fid, inner))


def do_bad_fixture(case, ctx, site, action):
    case.useFixture(VFixture(ctx, action[1], None, bad_details=True))


def do_onexc_raiser(case, ctx, site, action):
    """An addOnException handler that itself raises when it is told about an exception of the
    test method or of tearDown.  RunTest._run_user then raises out of that stage; the nested
    try/finally blocks of _run_core still owe tearDown and every cleanup their run.  (Exceptions of
    setUp and of cleanups are left alone: there the unmodified code gives no such guarantee and
    C02's quantifier does not include raising handlers at all.)"""

    def handler(exc_info):
        if str(exc_info[1]).startswith(("test!", "tearDown!")):
            raise HandlerBroke("handler choked on %s" % (exc_info[1],))

    case.addOnException(handler)


def _patched_class(ctx):
    """A class of the application under test (one per execution) whose attributes get patched."""
    k = ctx.extra.get("klass")
    if k is None:

        class K:
            @staticmethod
            def sm(x=1):
                return ("sm", x)

            @classmethod
            def cm(cls):
                return ("cm", cls.__name__)

            limit = 5

        class Sub(K):
            """Inherits both; has neither in its own namespace."""

            limit = 0  # (its own, overriding the base class's - and falsy)

        k = ctx.extra["klass"] = K
        ctx.extra["subklass"] = Sub
        ctx.extra["klass_raw"] = {"sm": vars(K)["sm"], "cm": vars(K)["cm"]}
    return k


def do_patch_class(case, ctx, site, action):
    case.patch(_patched_class(ctx), action[1], lambda *a: "patched")


def _cleanup_dup(case, ctx, rid):
    """Registered twice with identical arguments (a bound "leave one level" method, say): the
    two registrations are distinguished by the order in which they run."""
    n = ctx.counts.get(("dup", rid), 0) + 1
    ctx.counts[("dup", rid)] = n
    return pg._cleanup(case, ctx, "%s#%d" % (rid, n))


def do_dup_cleanup(case, ctx, site, action):
    rid = action[1]
    case.addCleanup(_cleanup_dup, case, ctx, rid)
    case.addCleanup(pg._cleanup, case, ctx, rid + "m")
    case.addCleanup(_cleanup_dup, case, ctx, rid)


def model_dup_cleanup(model, site, action):
    rid = action[1]
    model.stack.append(("cdup", rid))
    model.stack.append(("c", rid + "m"))
    model.stack.append(("cdup", rid))


def model_dup_pop(model, item):
    rid = item[1]
    n = model.counts.get(("dup", rid), 0) + 1
    model.counts[("dup", rid)] = n
    model.stage("c:%s#%d" % (rid, n))


class PropObj:
    """An attribute that exists but does not live in the object's own __dict__: a property
    with a setter and no deleter (a slot of a base class and a forwarding proxy behave alike)."""

    def __init__(self):
        self._level = "orig-level"

    @property
    def level(self):
        return self._level

    @level.setter
    def level(self, value):
        self._level = value


def do_patch_prop(case, ctx, site, action):
    o = ctx.extra.get("propobj")
    if o is None:
        o = ctx.extra["propobj"] = PropObj()
    case.patch(o, "level", "patched-level")


def do_patch_subclass(case, ctx, site, action):
    _patched_class(ctx)
    case.patch(ctx.extra["subklass"], action[1], lambda *a: "patched")


def class_patch_problems(ctx):
    k = ctx.extra.get("klass")
    out = []
    o = ctx.extra.get("propobj")
    if k is None:
        if o is not None and o.level != "orig-level":
            out.append(("patch-restore", "property-backed attribute 'level' is %r after run(), was 'orig-level'" % (o.level,)))
        return out
    for name, raw in ctx.extra["klass_raw"].items():
        now = vars(k).get(name, "<absent>")
        if now is not raw:
            try:
                works = k().sm() == ("sm", 1) if name == "sm" else type("Sub", (k,), {}).cm() == ("cm", "Sub")
            except Exception as e:
                works = "raises %s" % type(e).__name__
            out.append(("patch-restore", "class attribute %r was a %s before the test and is %r afterwards (still works as before: %s)" % (name, type(raw).__name__, now, works)))
    o = ctx.extra.get("propobj")
    if o is not None and o.level != "orig-level":
        out.append(("patch-restore", "property-backed attribute 'level' is %r after run(), was 'orig-level'" % (o.level,)))
    sub = ctx.extra["subklass"]
    if vars(sub).get("limit", "<absent>") != 0 or vars(k).get("limit", "<absent>") != 5:
        out.append(("patch-restore", "the subclass's own attribute limit = 0 (overriding the base class's 5) is %r after run(), the base class's %r" % (vars(sub).get("limit", "<absent>"), vars(k).get("limit", "<absent>"))))
    try:
        got = (sub().sm(), type("SubSub", (sub,), {}).cm())
    except Exception as e:
        got = "raises %s: %s" % (type(e).__name__, e)
    if got != (("sm", 1), ("cm", "SubSub")):
        out.append(("patch-restore", "after the test the subclass's inherited sm()/cm() give %r (own namespace now holds %r)" % (got, sorted(n for n in ("sm", "cm") if n in vars(sub)))))
    return out


pg.ACTION_HANDLERS["fixture"] = do_fixture
pg.ACTION_HANDLERS["patch_class"] = do_patch_class
pg.ACTION_HANDLERS["patch_subclass"] = do_patch_subclass
pg.ACTION_HANDLERS["dup_cleanup"] = do_dup_cleanup
pg.MODEL_ACTION_HANDLERS["dup_cleanup"] = model_dup_cleanup
pg.MODEL_STACK_HANDLERS["cdup"] = model_dup_pop
pg.ACTION_HANDLERS["patch_prop"] = do_patch_prop
pg.MODEL_ACTION_HANDLERS["patch_prop"] = lambda model, site, action: model.stack.append(("noop",))
pg.MODEL_ACTION_HANDLERS["patch_subclass"] = lambda model, site, action: model.stack.append(("noop",))
pg.MODEL_ACTION_HANDLERS["patch_class"] = lambda model, site, action: model.stack.append(("noop",))
pg.MODEL_STACK_HANDLERS["noop"] = lambda model, item: None
pg.ACTION_HANDLERS["bad_fixture"] = do_bad_fixture
pg.ACTION_HANDLERS["onexc_raiser"] = do_onexc_raiser


def _model_fx_setup(model, fid, inner):
    """-> (ok, list of clean ids registered in LIFO-run order is handled by caller)"""
    stage = "fx:%s.setUp" % fid
    model.stages.append(("run", stage))
    registered = []
    if inner is not None:
        ok = _model_fx_setup_full(model, inner, None)
        if not ok:
            # inner failed: outer._setUp raised before registering anything; outer.setUp's own
            # cleanUp has nothing to run
            return False, registered
        registered.append(inner)
    registered.append(fid)
    k = model.decide(stage)
    if k != pg.RET:
        model.fx_raised.append((stage, k))
        # the fixture cleans itself up at once, LIFO
        for r in reversed(registered):
            _model_fx_clean(model, r)
        return False, []
    return True, registered


def _model_fx_setup_full(model, fid, inner):
    ok, registered = _model_fx_setup(model, fid, inner)
    return ok


def _model_fx_clean(model, fid):
    stage = "fx:%s.clean" % fid
    model.stages.append(("run", stage))
    k = model.decide(stage)
    if k != pg.RET:
        model.fx_raised.append((stage, k))


def model_fixture_action(model, site, action):
    _, fid, inner = action
    if not hasattr(model, "fx_raised"):
        model.fx_raised = []
    before = len(model.fx_raised)
    ok, registered = _model_fx_setup(model, fid, inner)
    if not ok:
        kinds = [k for _, k in model.fx_raised[before:]]
        raise pg.ModelAbort(pg.KBI if pg.KBI in kinds[:1] else pg.ERROR)
    model.stack.append(("fxclean", tuple(registered)))


def model_fixture_pop(model, item):
    # TestCase.useFixture registered fixture.cleanUp: the fixture's cleanups run LIFO
    for fid in reversed(item[1]):
        _model_fx_clean(model, fid)


def model_bad_fixture_action(model, site, action):
    fid = action[1]
    if not hasattr(model, "fx_raised"):
        model.fx_raised = []
    stage = "fx:%s.setUp" % fid
    model.stages.append(("run", stage))
    if model.decide(stage) != pg.RET:
        raise AssertionError("bad-details fixtures never fail setUp")
    # useFixture registers fixture.cleanUp and, after it, the gathering of the fixture's details,
    # which happens when that cleanup runs (it fails then - an error of the test - and the
    # fixture is cleaned up all the same); the stage that used the fixture goes on
    model.stack.append(("fxclean", (fid,)))


pg.MODEL_ACTION_HANDLERS["fixture"] = model_fixture_action
pg.MODEL_ACTION_HANDLERS["bad_fixture"] = model_bad_fixture_action
pg.MODEL_ACTION_HANDLERS["onexc_raiser"] = lambda model, site, action: None
pg.MODEL_STACK_HANDLERS["fxclean"] = model_fixture_pop


def build_actions(regs):
    """regs: tuple of registration names -> actions dict."""
    actions = {}
    n = 0
    for r in regs:
        n += 1
        kind, site = r.split("@")
        rid = str(n)
        if kind == "cleanup":
            actions.setdefault(site, []).append(("cleanup", rid))
        elif kind == "cleanup_kw":
            actions.setdefault(site, []).append(("cleanup_kw", rid))
        elif kind == "cleanup_by_cleanup":
            actions.setdefault(site, []).append(("cleanup", rid))
            actions.setdefault("c:" + rid, []).append(("cleanup", rid + "b"))
        elif kind == "patch_existing":
            actions.setdefault(site, []).append(("patch", "existing", "v" + rid))
        elif kind == "patch_missing":
            actions.setdefault(site, []).append(("patch", "missing", "v" + rid))
        elif kind == "patch_none":
            actions.setdefault(site, []).append(("patch", "nothing", "v" + rid))
        elif kind == "patch_missing_to_none":
            actions.setdefault(site, []).append(("patch", "missing", None))
        elif kind == "fixture":
            actions.setdefault(site, []).append(("fixture", rid, None))
        elif kind == "nested_fixture":
            actions.setdefault(site, []).append(("fixture", rid, rid + "i"))
        elif kind == "fixture_baddetails":
            actions.setdefault(site, []).append(("bad_fixture", rid))
        elif kind == "onexc_raiser":
            actions.setdefault(site, []).append(("onexc_raiser", rid))
        elif kind == "patch_staticmethod":
            actions.setdefault(site, []).append(("patch_class", "sm"))
        elif kind == "patch_classmethod":
            actions.setdefault(site, []).append(("patch_class", "cm"))
        elif kind == "patch_inherited_staticmethod":
            actions.setdefault(site, []).append(("patch_subclass", "sm"))
        elif kind == "patch_overriding_falsy":
            actions.setdefault(site, []).append(("patch_subclass", "limit"))
        elif kind == "patch_property":
            actions.setdefault(site, []).append(("patch_prop",))
        elif kind == "dup_cleanup":
            actions.setdefault(site, []).append(("dup_cleanup", rid))
        else:
            raise AssertionError(r)
    return actions


# C02 does not care which exception kinds are raised, only that something is: a small menu keeps
# the search on registration sites and order
KINDS = (pg.RET, pg.ERROR, pg.FAIL, pg.SKIP, pg.KBI)


def config_of(regs):
    # ("@xfail" is not a registration: the test method carries unittest.expectedFailure)
    dec = "xfail_decorator" if "@xfail" in regs else None
    return pg.Config(actions=build_actions(tuple(r for r in regs if r != "@xfail")), kinds=KINDS, setup_pre_kinds=(pg.ERROR,), decorator=dec)


def run_once(case, ctx, flavour):
    result, log = c01.make_result(flavour)
    try:
        case.run(result)
        how = ("returned",)
    except BaseException as e:
        how = ("raised", type(e).__name__)
    outs = [e[0] for e in log if e[0] in rec.OUTCOMES]
    return outs, how


def execute(regs, flavour, chooser):
    config = config_of(regs)
    ctx = pg.Ctx(config, chooser)
    ctx.extra["flavour"] = flavour
    case = pg.new_case(config, ctx)
    outs1, how1 = run_once(case, ctx, flavour)
    xlog1 = list(ctx.xlog)
    scratch1 = ctx.scratch
    left1 = len(case._cleanups) if hasattr(case, "_cleanups") else 0
    # second run of the same instance: same decisions (memoised)
    ctx.new_run()
    outs2, how2 = run_once(case, ctx, flavour)
    xlog2 = list(ctx.xlog)
    scratch2 = ctx.scratch
    if chooser.cost:
        # third run of the same instance, in which nothing goes wrong any more (a flaky test that
        # is retried): whatever the earlier runs raised is not this run's business
        memo = ctx.memo
        ctx.new_run()
        ctx.memo, ctx.chooser = {}, _Quiet()
        outs3, how3 = run_once(case, ctx, flavour)
        ctx.quiet_run = (outs3, how3, list(ctx.xlog), dict(ctx.memo))
        ctx.memo, ctx.chooser = memo, chooser
    return ctx, config, (outs1, how1, xlog1, scratch1), (outs2, how2, xlog2, scratch2)


class _Quiet:
    cost = 0

    def choose(self, label, n, costs=None):
        return 0


def check_execution(ctx, config, run1, run2):
    problems = []
    outs1, how1, xlog1, scratch1 = run1
    outs2, how2, xlog2, scratch2 = run2
    model = pg.ModelRun(config, ctx.memo)
    impl = pg.impl_stage_log(xlog1)
    exp = list(model.stages)
    if impl != exp:
        clause = "order"
        irun = [e[1] for e in impl if e[0] == "run"]
        erun = [e[1] for e in exp if e[0] == "run"]
        if sorted(irun) != sorted(erun):
            clause = "exactly-once"
        problems.append((clause, "execution log %r, lifecycle model %r" % (impl, exp)))
    if model.missing and not problems:
        problems.append(("exactly-once", "model expected decisions for %r" % (model.missing,)))
    quiet = getattr(ctx, "quiet_run", None)
    if quiet is not None and not problems:
        outs3, how3, xlog3, memo3 = quiet
        qmodel = pg.ModelRun(config, memo3)
        if pg.impl_stage_log(xlog3) != list(qmodel.stages):
            problems.append(("rerun-quiet", "third run of the same instance, nothing raising: execution log %r, lifecycle model %r" % (pg.impl_stage_log(xlog3), list(qmodel.stages))))
        elif (outs3, how3) != ([("addFailure" if ctx.extra.get("flavour") == "py26" else "addUnexpectedSuccess") if config.decorator == "xfail_decorator" else "addSuccess"], ("returned",)) and not any(a[0] == "bad_fixture" for acts in config.actions.values() for a in acts):
            problems.append(("rerun-quiet", "third run of the same instance, in which nothing raises, gave %r %r (first run: %r %r)" % (outs3, how3, outs1, how1)))
    for sc in (scratch1, scratch2):
        if getattr(sc, "existing", None) != "orig":
            problems.append(("patch-restore", "patched attribute 'existing' is %r after run()" % (getattr(sc, "existing", None),)))
        if hasattr(sc, "missing"):
            problems.append(("patch-restore", "attribute 'missing' still present after run(): %r" % (sc.missing,)))
        if getattr(sc, "nothing", "<absent>") is not None:
            problems.append(("patch-restore", "attribute 'nothing' (None before the test) is %r after run()" % (getattr(sc, "nothing", "<absent>"),)))
    problems.extend(class_patch_problems(ctx))
    if (outs1, how1) != (outs2, how2) or pg.impl_stage_log(xlog1) != pg.impl_stage_log(xlog2):
        problems.append(("rerun", "second run() differs: first %r %r %r, second %r %r %r" % (outs1, how1, pg.impl_stage_log(xlog1), outs2, how2, pg.impl_stage_log(xlog2))))
    return problems, model


CORE = ("cleanup@setUp.pre", "cleanup@setUp", "cleanup@test", "cleanup@tearDown", "cleanup_by_cleanup@test", "patch_existing@test", "fixture@test")


def all_regsets(tier):
    out = [(), ("@xfail",), ("@xfail", "cleanup@test")]
    for n in (1, 2):
        for combo in itertools.product(REGS, repeat=n):
            out.append(combo)
    if tier == "quick":
        # triples: any kind in the middle, core kinds around it
        for a, b, c in itertools.product(CORE, REGS, CORE):
            out.append((a, b, c))
    else:
        for combo in itertools.product(REGS, repeat=3):
            out.append(combo)
        # quadruples: every ordered pair of kinds between two plain cleanups
        for a, b in itertools.product(REGS, repeat=2):
            out.append(("cleanup@setUp", a, b, "cleanup@test"))
    return out


NSHARDS = 96


# ---------------------------------------------------------------------------
# clones of one prototype run in overlapping fashion (as ConcurrentTestSuite does with the clones
# made by clone_test_with_new_id / testscenarios): each clone has its own cleanups

CLONE_CONFIGS = (
    ("@xfail", "cleanup@setUp", "cleanup@test"),
    ("cleanup@setUp", "cleanup@test"),
    ("cleanup@setUp", "cleanup_by_cleanup@test"),
    ("patch_existing@test", "cleanup@tearDown"),
)


def execute_clones(regs, chooser):
    from testtools.testcase import clone_test_with_new_id

    from vt.explore import sched as S

    config = pg.Config(actions=build_actions(tuple(r for r in regs if r != "@xfail")), kinds=(pg.RET, pg.ERROR), setup_pre_kinds=(), decorator="xfail_decorator" if "@xfail" in regs else None)
    sched = S.Scheduler(chooser, horizon=500, exit_points=False)
    proto_ctx = pg.Ctx(config, chooser)
    proto = pg.new_case(config, proto_ctx)
    ctxs, cases, outs = [], [], {}
    for name in ("A", "B"):
        c = clone_test_with_new_id(proto, "clone." + name)
        ctx = pg.Ctx(config, chooser)
        ctx.sched = sched
        c._vt_ctx = ctx
        ctxs.append(ctx)
        cases.append(c)

    def runner(i):
        r = rec.Ext()
        try:
            cases[i].run(r)
            how = "returned"
        except BaseException as e:
            if isinstance(e, S.SchedulerAbort):
                raise
            how = type(e).__name__
        outs[i] = ([e[0] for e in r.log if e[0] in rec.OUTCOMES], how)

    def main():
        ths = [S.SThread(sched, target=runner, args=(i,), name="clone-%d" % i) for i in range(2)]
        for t in ths:
            t.start()
        for t in ths:
            t.join()

    sched.execute(main)
    return sched, config, ctxs, outs


def check_clones(sched, config, ctxs, outs):
    problems = []
    if sched.deadlock:
        return [("clones-deadlock", sched.deadlock)]
    for i, ctx in enumerate(ctxs):
        model = pg.ModelRun(config, ctx.memo)
        impl = pg.impl_stage_log(ctx.xlog)
        if impl != list(model.stages) or model.missing:
            problems.append(("clones", "clone %s ran %r, its own lifecycle is %r (other clone ran %r)" % ("AB"[i], impl, model.stages, pg.impl_stage_log(ctxs[1 - i].xlog))))
        for sc in (ctx.scratch,):
            if getattr(sc, "existing", None) != "orig":
                problems.append(("clones", "clone %s left the patched attribute at %r" % ("AB"[i], getattr(sc, "existing", None))))
    return problems


def shards(tier):
    return list(range(NSHARDS)) + [("clones", i) for i in range(len(CLONE_CONFIGS))]


def run_shard(shard, tier, seed):
    res = ShardResult()
    if isinstance(shard, tuple) and shard[0] == "clones":
        regs = CLONE_CONFIGS[shard[1]]
        from vt.explore.sched import PREEMPT  # noqa

        def check(ch, o):
            sched, config, ctxs, outs = o.v
            res.evaluations += 1
            res.distinct.add(obs_hash(("clones", regs, tuple(tuple(c.xlog) for c in ctxs))))
            for clause, msg in check_clones(sched, config, ctxs, outs):
                res.violation("C02/%s" % clause, "%s [registrations=%r]" % (msg, regs), {"clones": list(regs), "choices": ch.choices})

        stats = explore(lambda ch: c01._wrap(execute_clones(regs, ch)), check, (2 if tier == "quick" else 3, 2), order_seed=seed)
        res.states += stats.choice_points + 1
        res.transitions += stats.edges
        res.traces_validated += stats.executions
        res.count("clone_schedules", stats.executions)
        return res
    bound = 2 if tier == "quick" else 3
    regsets = all_regsets(tier)
    for regs in regsets[shard::NSHARDS]:
        for flavour in ("ext",) if len(regs) > 1 else ("ext", "tt", "py26"):
            def check(ch, o, regs=regs, flavour=flavour):
                ctx, config, run1, run2 = o.v
                problems, model = check_execution(ctx, config, run1, run2)
                res.evaluations += 1
                if ch.cost:
                    res.distinct.add(obs_hash((regs, flavour, tuple(run1[2]), tuple(run1[0]))))
                if len(res.samples) < 1 and ch.cost >= 2 and len(regs) >= 2:
                    res.add_sample({"registrations": list(regs), "decisions": [[s, str(k)] for (s, _), k in sorted(ctx.memo.items())], "execution_log": [list(map(str, e)) for e in pg.impl_stage_log(run1[2])]})
                for clause, msg in problems:
                    res.violation("C02/%s" % clause, "%s [registrations=%r flavour=%s decisions=%s]" % (msg, regs, flavour, sorted(ctx.memo.items())), {"regs": list(regs), "flavour": flavour, "choices": ch.choices})

            stats = explore(lambda ch, regs=regs, flavour=flavour: c01._wrap(execute(regs, flavour, ch)), check, bound, order_seed=seed)
            res.states += stats.choice_points + 1
            res.transitions += stats.edges
            res.traces_validated += stats.executions * 2
            res.count("programs_configs", 1)
    res.notes["bound_completed"] = bound
    return res


def meta(tier):
    return {
        "technique": MANIFEST_INFO["technique"],
        "rule": "for every registration selection: every choice sequence with <= bound deviating stages / fixture hooks; each execution runs the instance twice; non-trivial = >= 1 deviation; distinct = distinct (registrations, execution log, outcome)",
        "bounds": {"registrations": "all ordered selections of <=2 of 24 kinds; triples core x any x core (quick) / all triples plus all pairs between two plain cleanups (thorough)", "deviations": 2 if tier == "quick" else 3, "stage_kinds": list(KINDS)},
        "assumptions": ["programs always up-call", "cleanup functions registered by the harness are distinct objects with unique ids"],
    }


def replay(data):
    if "clones" in data:
        o = execute_clones(tuple(data["clones"]), Chooser(data["choices"]))
        p = check_clones(*o)
        return (not p), "schedule=%r\nproblems=%r" % (o[0].trace, p)
    regs = tuple(data["regs"])
    ctx, config, run1, run2 = execute(regs, data["flavour"], Chooser(data["choices"]))
    problems, model = check_execution(ctx, config, run1, run2)
    return (not problems), "registrations=%r\ndecisions=%r\nrun1 log=%r\nmodel=%r\nrun1=%r %r\nrun2=%r %r\nproblems=%r" % (
        regs, sorted(ctx.memo.items()), pg.impl_stage_log(run1[2]), model.stages, run1[0], run1[1], run2[0], run2[1], problems)
