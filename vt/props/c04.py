"""C04 — run verdict and stop control are consistent with the outcomes reported."""

import io
import itertools
import re
import sys
import threading
import types
import unittest

import testtools
from testtools import PlaceHolder
from testtools import run as tt_run
from testtools.testsuite import FixtureSuite
from testtools.content import text_content
from testtools.testresult.real import (
    ExtendedToOriginalDecorator,
    ExtendedToStreamDecorator,
    MultiTestResult,
    StreamResult,
    Tagger,
    TestResultDecorator,
    TextTestResult,
    StreamToExtendedDecorator,
    ThreadsafeForwardingResult,
)

from vt import recorders as rec
from vt.explore.bfs import bfs
from vt.explore.chooser import obs_hash
from vt.runner import ShardResult
from vt.snapshot import snapshot

PROPERTY = "C04"

MANIFEST_INFO = {
    "engine": "B",
    "design_ref": "DESIGN.md section 5, C04",
    "technique": "explicit-state BFS over TestResult call histories (startTestRun, startTest, six outcomes, stopTest, stopTestRun, stop) on every adapter stack of depth 0..2/3 over TestResult / TextTestResult with failfast off, set on the inner result(s) before wrapping (all of them or only the first), or on the outermost object after wrapping; verdict/stop reference model compared at every state, TextTestResult summary parsed at every stopTestRun; real suites of generated TestCases and testtools.run driven in-process for every outcome history",
    "level_text": "All well-formed histories up to depth 8 (quick) / 10 (thorough) over 2 (3) tests are applied to every configuration (about 300 quick; listed in the evidence) (bare results, MultiTestResult with 1-2 branches (failfast on both, on the first only, or on the second only and then switched off on the multiplexer), ThreadsafeForwardingResult, ExtendedToOriginalDecorator, TestResultDecorator, Tagger stacked to depth 2 (3), and ExtendedToStreamDecorator for the failfast/stop clauses, also with failfast switched on and off while the run is under way; where a ThreadsafeForwardingResult is outermost, stop() may also arrive through a sibling forwarder on the same target); one test may report two problems (except through ThreadsafeForwardingResult); suites also contain stdlib TestCases whose subtests fail or all pass, a bare failure without details, and a FixtureSuite; after every call wasSuccessful() must equal 'no error, failure or unexpected success since the last startTestRun', shouldStop must be false before and true from the first such outcome with failfast (or stop()) on, at the outermost object and at every underlying result, and TextTestResult's summary (count, OK/FAILED, failures=K, one section per problem) must agree. Every outcome history of <= 3 real TestCases is run as a suite against failfast results (dispatch stops right after the first bad test) and through testtools.run in-process, with and without -f (exit status and printed summary).",
    "level_note": "failfast is set after wrapping only on objects that define a failfast attribute of their own forwarding (MultiTestResult, ExtendedToOriginalDecorator, ExtendedToStreamDecorator, bare results); wasSuccessful() is not demanded of ExtendedToStreamDecorator (the statement names it only for failfast/stop); process exit status is SystemExit.code in-process.",
}

BAD = ("addError", "addFailure", "addUnexpectedSuccess")
OUTCOMES = rec.OUTCOMES
T = [PlaceHolder("t%d" % i) for i in range(4)]

WRAPPERS = ("multi1", "multi2", "tfr", "etod", "decorator", "tagger")
FORWARDS_FAILFAST = ("multi1", "multi2", "etod")


class Impl:
    def __init__(self):
        self.top = None
        self.leaves = []
        self.text_stream = None
        self.sibling = None
        self.behind = None


def build(config):
    leaf_kind, wrappers, ff_mode = config
    impl = Impl()
    ff_inner = ff_mode in ("inner", "inner1")
    if leaf_kind == "etsd":
        if ff_mode == "toggle":
            # (what the events are for: an extended result behind the stream)
            impl.behind = rec.TT()
            impl.top = ExtendedToStreamDecorator(StreamToExtendedDecorator(impl.behind))
        else:
            impl.top = ExtendedToStreamDecorator(StreamResult())
        if ff_mode not in ("off", "toggle"):
            impl.top.failfast = True
        return impl
    if leaf_kind == "tt":
        leaf = rec.TT(failfast=ff_inner)
    else:
        impl.text_stream = io.StringIO()
        leaf = TextTestResult(impl.text_stream, failfast=ff_inner)
    impl.leaves.append(leaf)
    obj = leaf
    for wi, w in enumerate(wrappers):
        if w == "multi1":
            obj = MultiTestResult(obj)
        elif w == "multi2":
            # "inner1": only the first underlying result was configured with failfast
            # "second-then-off": only the SECOND result was configured with failfast, and the
            # multiplexer's own failfast is switched off after wrapping (off for all, then)
            # (... of the OUTERMOST multiplexer: a failfast result deeper down, behind a Tagger or a
            # forwarder that does not pass the attribute on, would be out of reach of the switch)
            other = rec.TT(failfast=(ff_inner and ff_mode != "inner1") or (ff_mode == "second-then-off" and wi == len(wrappers) - 1))
            impl.leaves.append(other)
            obj = MultiTestResult(obj, other)
        elif w == "tfr":
            sem = threading.Semaphore(1)
            # (another worker's forwarder: same target, same semaphore - only used when this one is outermost)
            impl.sibling = ThreadsafeForwardingResult(obj, sem)
            obj = ThreadsafeForwardingResult(obj, sem)
        elif w == "etod":
            obj = ExtendedToOriginalDecorator(obj)
        elif w == "decorator":
            obj = TestResultDecorator(obj)
        elif w == "tagger":
            obj = Tagger(obj, {"x"}, set())
        else:
            raise AssertionError(w)
    if ff_mode == "outer":
        obj.failfast = True
    if ff_mode == "second-then-off":
        obj.failfast = False
    impl.top = obj
    return impl


def configs(tier):
    out = []
    maxd = 2 if tier == "quick" else 3
    for leaf in ("tt", "text"):
        for d in range(0, maxd + 1):
            for ws in itertools.product(WRAPPERS, repeat=d):
                if d >= 2 and leaf == "text":
                    continue
                for ff in ("off", "inner", "outer") + (("inner1",) if "multi2" in ws else ()) + (("second-then-off",) if ws[-1:] == ("multi2",) else ()):
                    if ff == "outer" and ws and ws[-1] not in FORWARDS_FAILFAST:
                        # only MultiTestResult / ExtendedToOriginalDecorator implement failfast
                        # themselves (they stop on a bad outcome whatever sits below them)
                        continue
                    out.append((leaf, ws, ff))
    out.append(("etsd", (), "off"))
    out.append(("etsd", (), "outer"))
    # failfast switched on and off in the course of the run (assigned after startTestRun, say)
    out.append(("etsd", (), "toggle"))
    return out


class Model:
    def __init__(self, failfast):
        self.F = failfast
        self.in_test = False
        self.has_outcome = 0
        self.bad = False
        self.stopped = False
        self.tests = 0
        self.total_tests = 0
        self.in_run = False
        self.started_once = False
        self.hetero = False
        self.stop_called = False
        self.counts = {o: 0 for o in OUTCOMES}

    def key(self):
        return (self.F, self.in_run, self.in_test, self.has_outcome, self.bad, self.stopped, self.tests, self.total_tests, tuple(sorted(self.counts.items())))


class System:
    def __init__(self, config, max_tests):
        self.config = config
        self.max_tests = max_tests
        # second problem report for one test: on the shallow stacks (the summary lives in the leaf)
        # (not through ThreadsafeForwardingResult, which by design forwards every outcome as a
        # start/outcome/stop block of its own, so that the target counts such a test twice)
        self.double = len(config[1]) <= 1 and config[0] != "etsd" and "tfr" not in config[1]

    def fresh(self):
        m = Model(self.config[2] not in ("off", "second-then-off", "toggle"))
        m.hetero = self.config[2] == "inner1"
        return build(self.config), m

    def ops(self, m):
        out = []
        if self.config[0] == "etsd" and not m.in_run and m.total_tests == 0 and not m.started_once:
            # ExtendedToStreamDecorator starts its run implicitly at the first event: begin explicitly
            return [("startTestRun",)]
        if not m.in_test:
            if not m.in_run:
                out.append(("startTestRun",))
            else:
                out.append(("stopTestRun",))
            if m.total_tests < self.max_tests:
                out.append(("startTest",))
        elif not m.has_outcome:
            out.extend((o,) for o in OUTCOMES)
        else:
            out.append(("stopTest",))
            if m.has_outcome == 1 and self.double:
                # a plain unittest.TestCase whose body fails and whose tearDown or a cleanup raises
                # as well reports two problems for one test
                out.extend((("addError",), ("addFailure",)))
        out.append(("stop",))
        if self.config[2] == "toggle":
            # (assigned whatever it is at the moment: a runner that always sets result.failfast)
            out.append(("failfast_on",))
            out.append(("failfast_off",))
        if self.config[1][-1:] == ("tfr",) and not m.in_test:
            # ConcurrentTestSuite: stop() arrives through another worker's forwarder
            out.append(("sibling_stop",))
        return out

    def apply(self, impl, m, op, check):
        problems = []
        top = impl.top
        name = op[0]
        t = T[m.total_tests - 1 if m.in_test else m.total_tests]
        text_before = impl.text_stream.getvalue() if impl.text_stream is not None else ""
        try:
            if name == "startTestRun":
                top.startTestRun()
                m.bad = False
                m.stopped = False
                m.stop_called = False
                m.tests = 0
                m.in_run = True
                m.started_once = True
                m.counts = {o: 0 for o in OUTCOMES}
            elif name == "stopTestRun":
                top.stopTestRun()
                m.in_run = False
            elif name == "startTest":
                top.startTest(t)
                m.in_test = True
                m.has_outcome = 0
                m.tests += 1
                m.total_tests += 1
            elif name == "stopTest":
                top.stopTest(t)
                m.in_test = False
            elif name == "stop":
                top.stop()
                m.stopped = True
                m.stop_called = True
            elif name in ("failfast_on", "failfast_off"):
                top.failfast = name == "failfast_on"
                m.F = name == "failfast_on"
            elif name == "sibling_stop":
                impl.sibling.stop()
                m.stopped = True
                m.stop_called = True
            else:
                if name == "addSuccess":
                    top.addSuccess(t)
                elif name == "addSkip":
                    top.addSkip(t, "why")
                elif name == "addUnexpectedSuccess":
                    top.addUnexpectedSuccess(t)
                else:
                    getattr(top, name)(t, details={"d": text_content("x")})
                m.has_outcome += 1
                m.counts[name] += 1
                if name in BAD:
                    m.bad = True
                    if m.F:
                        m.stopped = True
        except Exception as e:
            if check:
                problems.append(("call-raised", "%s raised %s: %s" % (name, type(e).__name__, str(e)[:100])))
            return problems
        if not check:
            return problems
        is_etsd = self.config[0] == "etsd"
        if impl.behind is not None and m.in_run:
            got = (impl.behind.wasSuccessful(), impl.behind.testsRun)
            want = (not m.bad, sum(m.counts.values()))
            if got != want:
                problems.append(("behind-the-stream", "the extended result behind the stream: (wasSuccessful(), testsRun) == %r, reported so far %r" % (got, want)))
        objs = [("outermost", top)] + [("underlying result %d" % i, l) for i, l in enumerate(impl.leaves)]
        for label, o in objs:
            # (ExtendedToStreamDecorator's own verdict is that of a StreamSummary, for which the pinned
            # suite specifies the Python 2.7 contract - an unexpected success does not fail the run,
            # TestStreamToExtendedContract.test_addUnexpectedSuccess_was_successful - so it is not
            # one of "testtools' own results" of the wasSuccessful clause; only its fail-fast/stop
            # behaviour is checked)
            if not is_etsd:
                try:
                    ws = o.wasSuccessful()
                except Exception as e:
                    ws = "raised %s" % type(e).__name__
                if ws != (not m.bad):
                    problems.append(("wasSuccessful", "%s: wasSuccessful() == %r, model says %r" % (label, ws, not m.bad)))
            try:
                ss = bool(o.shouldStop)
            except Exception as e:
                ss = "raised %s" % type(e).__name__
            want_ss = m.stopped
            if m.hetero and label.startswith("underlying result") and label != "underlying result 0" and m.bad and not m.stop_called:
                # a result that was not configured with failfast itself may or may not be stopped
                # along with its failfast siblings; stop() must reach it in any case
                want_ss = ss
            if ss != want_ss:
                clause = "shouldStop"
                if m.F and m.bad and not ss and not m.stop_called:
                    clause = "failfast-not-effective"
                elif m.stop_called and not ss:
                    clause = "stop-not-propagated"
                elif ss and not m.stopped:
                    clause = "shouldStop-early"
                problems.append((clause, "%s: shouldStop == %r after %s, model says %r (failfast=%r, bad=%r)" % (label, ss, name, want_ss, m.F, m.bad)))
        if name == "stopTestRun" and impl.text_stream is not None:
            written = impl.text_stream.getvalue()[len(text_before):]
            problems.extend(check_summary(written, m))
        return problems

    def canon(self, impl, m):
        try:
            return (m.key(), snapshot(impl.top, time_token=True), tuple(snapshot(l, time_token=True) for l in impl.leaves))
        except Exception:
            return None

    def fingerprint(self, clause, hist, msg):
        leaf, ws, ff = self.config
        if clause == "failfast-not-effective" and ff == "inner" and any(w.startswith("multi") for w in ws):
            return "C04/failfast-cleared-by-MultiTestResult-wrapping"
        return "C04/%s/%s" % (clause, "+".join(ws) or leaf)

    def replay_data(self, hist):
        return {"config": [self.config[0], list(self.config[1]), self.config[2]], "history": [list(o) for o in hist]}


SUMMARY_RE = re.compile(r"\nRan (\d+) test(s?) in [\d.]+s\n(OK|FAILED \(failures=(\d+)\))\n$")


def check_summary(text, m):
    problems = []
    mo = SUMMARY_RE.search(text)
    if not mo:
        return [("summary", "summary not recognised: %r" % text[-200:])]
    n = int(mo.group(1))
    if n != m.tests:
        problems.append(("summary-count", "summary says Ran %d, %d tests were started in this run" % (n, m.tests)))
    if (mo.group(2) == "s") != (n != 1):
        problems.append(("summary-plural", "plural in %r" % mo.group(0)))
    k = sum(m.counts[o] for o in BAD)
    if m.bad:
        if mo.group(3) == "OK" or int(mo.group(4)) != k:
            problems.append(("summary-verdict", "summary says %r, %d bad outcomes were reported" % (mo.group(3), k)))
    elif mo.group(3) != "OK":
        problems.append(("summary-verdict", "summary says %r but nothing bad was reported" % mo.group(3)))
    sections = {"ERROR": text.count("\nERROR: ") + text.startswith("ERROR: "), "FAIL": text.count("\nFAIL: "), "UNEXPECTED SUCCESS": text.count("UNEXPECTED SUCCESS: ")}
    want = {"ERROR": m.counts["addError"], "FAIL": m.counts["addFailure"], "UNEXPECTED SUCCESS": m.counts["addUnexpectedSuccess"]}
    if sections != want:
        problems.append(("summary-sections", "problem sections %r, reported %r" % (sections, want)))
    return problems


# ---------------------------------------------------------------------------
# real suites and testtools.run

KINDS = ("success", "failure", "error", "skip", "xfail", "uxsuccess", "double", "subfail", "barefail", "subpass")
KIND_BAD = ("failure", "error", "uxsuccess", "double", "subfail", "barefail")
RAN = []


def make_case(kind, n):
    if kind == "double":
        # plain unittest.TestCase: the failing body and the failing tearDown are reported separately
        class D(unittest.TestCase):
            def test_it(self):
                RAN.append(n)
                self.fail("f")

            def tearDown(self):
                raise ValueError("e")

            def id(self):
                return "k%d.double" % n

        return D("test_it")

    if kind == "barefail":
        # a failure with nothing attached (a bare 'fail' event replayed from a stream): still a
        # problem with a section of its own in the summary
        class B(PlaceHolder):
            def run(self, result=None):
                RAN.append(n)
                return PlaceHolder.run(self, result)

        return B("k%d.barefail" % n, outcome="addFailure")
    if kind == "subpass":
        # plain unittest.TestCase with subtests that all pass: nothing to stop for
        class SP(unittest.TestCase):
            def test_it(self):
                RAN.append(n)
                with self.subTest(i=1):
                    pass
                with self.subTest(i=2):
                    pass

            def id(self):
                return "k%d.subpass" % n

        return SP("test_it")
    if kind == "subfail":
        # plain unittest.TestCase whose only problem is a failing subTest
        class S(unittest.TestCase):
            def test_it(self):
                RAN.append(n)
                with self.subTest(i=1):
                    self.fail("sub")
                with self.subTest(i=2):
                    pass

            def id(self):
                return "k%d.subfail" % n

        return S("test_it")

    class K(testtools.TestCase):
        def test_it(self):
            RAN.append(n)
            if kind == "failure":
                self.fail("f")
            elif kind == "error":
                raise ValueError("e")
            elif kind == "skip":
                self.skipTest("s")
            elif kind == "xfail":
                self.expectFailure("x", self.assertEqual, 1, 0)
            elif kind == "uxsuccess":
                self.expectFailure("x", self.assertEqual, 1, 1)

        def id(self):
            return "k%d.%s" % (n, kind)

    return K("test_it")


class _NullFixture:
    def setUp(self):
        pass

    def cleanUp(self):
        pass


_MOD = types.ModuleType("vt_synth_c04")
sys.modules["vt_synth_c04"] = _MOD


def check_suites(res, tier):
    import warnings

    # python 3.12's unittest.TestCase warns about results without addDuration
    warnings.filterwarnings("ignore", message="TestResult has no addDuration method")
    problems = []
    maxn = 3
    suite_configs = [("tt", (), "inner"), ("tt", ("etod",), "outer"), ("tt", ("multi1",), "outer"), ("tt", ("tfr",), "inner"), ("text", (), "inner"), ("tt", ("decorator", "etod"), "inner"), ("tt", ("multi2", "tfr"), "inner"), ("etsd", (), "outer"), ("tt", (), "off")]
    for n in range(0, maxn + 1):
        for kinds in itertools.product(KINDS, repeat=n):
            first_bad = next((i for i, k in enumerate(kinds) if k in KIND_BAD), None)
            for config in suite_configs + ([("tt", (), "inner", "fixturesuite")] if n >= 2 else []):
                impl = build(config[:3])
                suite = unittest.TestSuite([make_case(k, i) for i, k in enumerate(kinds)])
                if config[3:] == ("fixturesuite",):
                    # testtools' own suite class, nested in a plain one
                    suite = unittest.TestSuite([FixtureSuite(_NullFixture(), list(suite))])
                del RAN[:]
                impl.top.startTestRun()
                suite.run(impl.top)
                impl.top.stopTestRun()
                res.evaluations += 1
                ff = config[2] != "off"
                want = list(range(n)) if (first_bad is None or not ff) else list(range(first_bad + 1))
                if RAN != want:
                    problems.append(("suite-dispatch", "suite %r against %r (failfast=%r) ran tests %r, expected %r" % (kinds, config, ff, list(RAN), want)))
                if config[0] != "etsd":
                    ran_bad = any(kinds[i] in KIND_BAD for i in want)
                    verdicts = [impl.top.wasSuccessful()] + [l.wasSuccessful() for l in impl.leaves]
                    if verdicts != [not ran_bad] * len(verdicts):
                        problems.append(("suite-wasSuccessful", "suite %r against %r: wasSuccessful() of the outermost / underlying results is %r, tests that ran: %r" % (kinds, config, verdicts, [kinds[i] for i in want])))
            # testtools.run in process
            for flag in ([], ["-f"]):
                _MOD.test_suite = lambda kinds=kinds: unittest.TestSuite([make_case(k, i) for i, k in enumerate(kinds)])
                out = io.StringIO()
                del RAN[:]
                try:
                    tt_run.main(["prog"] + flag + ["vt_synth_c04.test_suite"], out)
                    code = None
                except SystemExit as e:
                    code = e.code
                res.evaluations += 1
                res.states += 1
                all_good = first_bad is None
                if bool(code) != (not all_good):
                    problems.append(("run-exit", "testtools.run %r over %r exited with %r" % (flag, kinds, code)))
                want = list(range(n)) if (first_bad is None or not flag) else list(range(first_bad + 1))
                if RAN != want:
                    problems.append(("run-dispatch", "testtools.run %r over %r ran %r, expected %r" % (flag, kinds, list(RAN), want)))
                m = Model(bool(flag))
                m.tests = len(want)
                for i in want:
                    k = kinds[i]
                    if k == "double":
                        m.counts["addFailure"] += 1
                        m.counts["addError"] += 1
                        m.bad = True
                        continue
                    if k in ("subfail", "barefail"):
                        m.counts["addFailure"] += 1
                        m.bad = True
                        continue
                    m.counts[{"subpass": "addSuccess", "success": "addSuccess", "failure": "addFailure", "error": "addError", "skip": "addSkip", "xfail": "addExpectedFailure", "uxsuccess": "addUnexpectedSuccess"}[k]] += 1
                    if k in KIND_BAD:
                        m.bad = True
                text = out.getvalue()
                idx = text.find("Tests running...\n")
                for clause, msg in check_summary(text[idx + len("Tests running...\n") - 1 :] if idx >= 0 else text, m):
                    problems.append(("run-" + clause, "testtools.run %r over %r: %s" % (flag, kinds, msg)))
                res.distinct.add(obs_hash(("run", kinds, tuple(flag))))
    return problems


def shards(tier):
    cs = configs(tier)
    return [("bfs", c) for c in cs] + [("suites",)]


def run_shard(shard, tier, seed):
    res = ShardResult()
    if shard[0] == "suites":
        for clause, msg in check_suites(res, tier):
            res.violation("C04/%s" % clause, msg, {"suites": msg})
        res.transitions += res.evaluations
        res.traces_validated += res.evaluations
        res.add_sample({"suite": ["success", "error", "skip"], "config": ["tt", ["multi1"], "outer"]})
        return res
    config = shard[1]
    depth = 8 if tier == "quick" else 10
    if len(config[1]) >= 2:
        depth -= 1
    if len(config[1]) >= 3:
        depth = 8
    sysm = System(config, 2 if tier == "quick" else 3)
    bfs(sysm, depth, res, label=repr(config), sample_every=2003)
    reached = res.notes.get("max_depth", 0)
    if reached < min(depth, 6) and not res.violations:
        raise AssertionError("C04 exploration of %r stopped at depth %r" % (config, reached))
    res.notes["neg_min_depth_reached"] = -reached
    res.notes["depth"] = depth
    return res


def meta(tier):
    return {
        "technique": MANIFEST_INFO["technique"],
        "rule": "per configuration BFS with canonical-state merging (model state + structural snapshot of the outermost object and every underlying result); every transition executed on fresh real objects by replay; non-trivial = non-initial states; plus every outcome history of <= 3 real TestCases as suite / testtools.run",
        "bounds": {"depth": 8 if tier == "quick" else 10, "tests": 2 if tier == "quick" else 3, "configurations": len(configs(tier)), "stack_depth": 2 if tier == "quick" else 3},
        "assumptions": MANIFEST_INFO["level_note"].split("; "),
    }


def replay(data):
    if "suites" in data:
        res = ShardResult()
        p = check_suites(res, "quick")
        return (not p), repr(p[:5])
    config = (data["config"][0], tuple(data["config"][1]), data["config"][2])
    sysm = System(config, 9)
    impl, m = sysm.fresh()
    ok, out = True, []
    for o in data["history"]:
        p = sysm.apply(impl, m, tuple(o), True)
        out.append("%r -> %r" % (o, p))
        ok = ok and not p
    return ok, "\n".join(out)
