"""C13 — concurrent suites run every test once, deliver every event, and terminate."""

import datetime
import threading as real_threading
import unittest

import testtools
import testtools.testsuite as ts_mod
from testtools import PlaceHolder
from testtools.content import text_content
from testtools.testresult.real import ExtendedToStreamDecorator, ThreadsafeForwardingResult

from vt import recorders as rec
from vt.explore import sched as S
from vt.explore.chooser import Chooser, explore, first_level_prefixes, obs_hash
from vt.props import c12
from vt.runner import ShardResult

PROPERTY = "C13"

MANIFEST_INFO = {
    "engine": "C",
    "design_ref": "DESIGN.md section 5, C13",
    "technique": "stateless preemption-bounded exhaustive exploration of the real ConcurrentTestSuite / ConcurrentStreamTestSuite with testtools.testsuite's threading and Queue replaced by scheduler shims; injected faults (caller's result raising, make_tests iterator failing, KeyboardInterrupt at queue.get); per-worker sequential reference runs as differential oracle; deadlock detection",
    "level_text": "1-3 workers each reporting 0-2 tests (incl. workers whose run() raises before/after reporting - an Exception or SystemExit -, TestSuite-like unhashable/equal sub-suites, a stream-native worker replaying events with timestamp=None, stream-native workers whose events carry their own route code, a worker emitting 300 events against bounded queues, a worker whose route code is the empty string, one sub-suite object handed out twice, an aborted run followed by a second run of the same suite object) are run by the real suites under every schedule with <= 2 preemptions (quick; 3 thorough) and <= 1 fault. Every execution is checked: each sub-suite entered once in its own thread, run() returns only after all workers finished, every worker event delivered exactly once and in order (compared with a sequential reference run of the same worker), contiguous per-test blocks, broken-runner reporting, stop-all + propagation on abort, no deadlock.",
    "level_note": "Scheduling points at semaphore/queue/thread operations and at calls on the caller's result; worker-local objects (ExtendedToStreamDecorator, StreamToQueue, forwarders) are owned by one thread. Wall-clock timestamps are only required to be present.",
}

UTC = datetime.timezone.utc
OUT = c12.OUTCOME_ARGS


class WorkerExit(SystemExit):
    """What a worker raises when the code under test calls sys.exit(): not an Exception."""


class WorkerBoom(RuntimeError):
    pass


class IterBoom(RuntimeError):
    pass


class Worker:
    boom = WorkerBoom

    def __init__(self, name, tests, raise_at=None, use_times=True, native=False):
        self.native = native  # speaks StreamResult itself (ConcurrentStreamTestSuite only)
        self.name = name
        self.tests = tests  # [(id, outcome)]
        self.raise_at = raise_at
        self.entries = []
        self.result = None
        self.finished = False
        self.use_times = use_times
        self.sched = None

    def run(self, result):
        self.entries.append(self.sched.current.id if self.sched is not None else -1)
        self.result = result
        try:
            for j, (tid, outcome) in enumerate(self.tests):
                if self.raise_at == j:
                    raise self.boom(self.name)
                if self.native == "chatty":
                    # one test with a detail of 300 chunks: more events than any sensible queue bound
                    result.status(test_id=tid, test_status="inprogress")
                    for k in range(300):
                        result.status(test_id=tid, file_name="log", file_bytes=b"c", eof=(k == 299), mime_type="text/plain")
                    result.status(test_id=tid, test_status="success")
                    continue
                if self.native == "routed":
                    # forwards a nested runner's events, which carry that runner's own route code
                    final = {"addSuccess": "success", "addFailure": "fail", "addSkip": "skip"}[outcome]
                    result.status(test_id=tid, test_status="inprogress", route_code="sub")
                    result.status(test_id=tid, test_status=final, route_code="sub")
                    continue
                if self.native:
                    # replays recorded event dicts: every field is given, the timestamp as None
                    final = {"addSuccess": "success", "addFailure": "fail", "addSkip": "skip"}[outcome]
                    result.status(test_id=tid, test_status="inprogress", test_tags=None, runnable=True, file_name=None, file_bytes=None, eof=False, mime_type=None, route_code=None, timestamp=None)
                    result.status(test_id=tid, test_status=None, test_tags=None, runnable=True, file_name="log", file_bytes=b"x", eof=True, mime_type="text/plain", route_code=None, timestamp=None)
                    result.status(test_id=tid, test_status=final, test_tags={"n"}, runnable=True, file_name=None, file_bytes=None, eof=False, mime_type=None, route_code=None, timestamp=None)
                    continue
                t = PlaceHolder(tid)
                if self.use_times:
                    result.time(c12.TEST_TIMES[tid][0])
                result.startTest(t)
                if self.use_times:
                    result.time(c12.TEST_TIMES[tid][1])
                getattr(result, outcome)(t, **OUT[outcome]())
                result.stopTest(t)
            if self.raise_at == len(self.tests):
                raise self.boom(self.name)
        finally:
            self.finished = True

    def __repr__(self):
        return "<Worker %s>" % self.name


class ExitingWorker(Worker):
    boom = WorkerExit


class SuiteLikeWorker(Worker):
    """Compares like unittest.TestSuite does: equal to every other one, and not hashable."""

    def __eq__(self, other):
        return isinstance(other, SuiteLikeWorker)

    __hash__ = None


# worker specs: (tests, raise_at)
CONFIGS = {
    "w2": [([("a1", "addSuccess"), ("a2", "addFailure")], None), ([("b1", "addSkip")], None)],
    "w3": [([("a1", "addError")], None), ([], 0), ([("c1", "addSuccess")], None)],
    "w2raise": [([("a1", "addUnexpectedSuccess")], None), ([("b1", "addExpectedFailure")], 1)],
    "w1": [([("a1", "addSuccess"), ("a2", "addSkip")], None)],
    "w2same": [([("a1", "addSuccess"), ("a2", "addFailure")], None), ([("b1", "addSkip")], None)],
    "w2none": [([("a1", "addSuccess")], None), ([("b1", "addError"), ("b2", "addSuccess")], None)],
    "w1empty": [([], None)],
    "w2chatty": [([("a1", "addSuccess")], None, "chatty"), ([("b1", "addSkip")], None)],
    # run() ends with SystemExit (sys.exit() somewhere in the code under test) after its first test
    "w2exit": [([("a1", "addSuccess")], None), ([("b1", "addFailure"), ("b2", "addSuccess")], 1, "exit")],
    # sub-suites that are plain-TestSuite-like: unhashable, and equal to one another
    "w2suites": [([("a1", "addSuccess")], None, "suite"), ([("b1", "addFailure")], None, "suite")],
    "w2native": [([("a1", "addSuccess")], None), ([("b1", "addFailure"), ("b2", "addSkip")], None, "native")],
    # stream-native workers whose events carry a route code of their own: the suite's code is
    # prefixed to it (and a suite code of None leaves it as it is)
    "w2routed": [([("a1", "addSuccess")], None, "routed"), ([("b1", "addFailure"), ("b2", "addSkip")], None, "routed")],
    # a worker whose route code is the empty string (any unicode string will do, says the docstring)
    "w2empty": [([("a1", "addSuccess")], None), ([("b1", "addFailure")], None)],
    "w2twice": [([("a1", "addSuccess")], None), ([("a1", "addSuccess")], None)],
    "w2x2": [([("a1", "addSuccess"), ("a2", "addFailure")], None), ([("b1", "addSkip"), ("b2", "addError")], None)],
    "w3x1": [([("a1", "addSuccess")], None), ([("b1", "addFailure")], None), ([("c1", "addSkip")], None)],
    "w4": [([("a1", "addSuccess")], None), ([("b1", "addFailure")], None), ([("c1", "addSkip")], None), ([], 0)],
}
ROUTES = ["0", "1", None, "3"]
# harnesses whose workers share a route code (the docstring allows any code, None included)
ROUTES_OF = {"w2same": ["0", "0"], "w2none": [None, None], "w2routed": ["0", None], "w2empty": ["", "1"]}


def routes_of(config):
    return ROUTES_OF.get(config, ROUTES)


def make_workers(config):
    if config == "w2twice":
        # make_tests hands out the very same sub-suite object twice (a suite repeated on purpose)
        w = Worker("w0", [("a1", "addSuccess")], None)
        return [w, w]
    return [(SuiteLikeWorker if spec[2:] == ("suite",) else ExitingWorker if spec[2:] == ("exit",) else Worker)("w%d" % i, spec[0], spec[1], native=(spec[2] if spec[2:] in (("chatty",), ("routed",)) else spec[2:] == ("native",))) for i, spec in enumerate(CONFIGS[config])]


class Observer:
    """wrap_result hook for ConcurrentTestSuite: notes stop() per worker."""

    def __init__(self, inner, idx):
        self._inner = inner
        self.idx = idx
        self.stopped = False

    def stop(self):
        self.stopped = True
        return self._inner.stop()

    def __getattr__(self, name):
        return getattr(self._inner, name)


class StreamTarget:
    """Caller's StreamResult: every status() is a visible operation and may raise."""

    def __init__(self, sched, faults):
        self.sched = sched
        self.faults = faults
        self.log = []

    def startTestRun(self):
        self.log.append(("startTestRun",))

    def stopTestRun(self):
        self.log.append(("stopTestRun",))

    def status(self, **kw):
        s = self.sched
        s.point("result.status")
        faulted = bool(self.faults and s.fault("result.status"))
        self.log.append(("status", kw, faulted, s.current.id if not s.aborting else -1))
        if faulted:
            raise c12.TargetFault("status")


class Run:
    pass


_CUR_SCHED = [None]


class SchedETSD(ExtendedToStreamDecorator):
    """The per-worker result is shared between the caller (stop()) and the worker thread:
    make those accesses visible operations."""

    def stop(self):
        s = _CUR_SCHED[0]
        if s is not None:
            s.point("worker_result.stop")
        return ExtendedToStreamDecorator.stop(self)

    def startTestRun(self):
        s = _CUR_SCHED[0]
        if s is not None:
            s.point("worker_result.startTestRun")
        return ExtendedToStreamDecorator.startTestRun(self)


def execute(kind, config, chooser, faults, iter_fault=None, interrupt=False):
    """kind: 'cts' or 'csts'.  -> Run object with everything the oracle needs."""
    sched = S.Scheduler(chooser, horizon=4000)
    # "<config>+rerun": when the first run() was aborted, the same suite object is run again
    # (fresh sub-suites, a fresh and well-behaved result)
    rerun = config.endswith("+rerun")
    config = config.split("+")[0]
    workers = make_workers(config)
    for w in workers:
        w.sched = sched
    r = Run()
    r.rerun = None
    r.sched = sched
    r.workers = workers
    r.kind = kind
    r.config = config
    r.observers = []
    r.iter_fault = iter_fault
    shim = S.ThreadingShim(sched)
    queues = []

    def queue_factory(maxsize=0):
        q = S.SQueue(sched, maxsize)
        q.interruptible = interrupt
        queues.append(q)
        return q

    current_workers = [workers]

    def gen():
        for i, w in enumerate(current_workers[0]):
            if iter_fault is not None and i == iter_fault:
                raise IterBoom("make_tests")
            yield w if kind == "cts" else (w, routes_of(config)[i])
        if iter_fault is not None and iter_fault >= len(workers):
            raise IterBoom("make_tests")

    def wrap(tsr, i):
        o = Observer(tsr, i)
        r.observers.append(o)
        return o

    def make_suite():
        # (built while the threading/Queue shims are in place: whatever the suite creates, and
        # whenever it creates it, is under the scheduler's control)
        if kind == "cts":
            return ts_mod.ConcurrentTestSuite(unittest.TestSuite(), lambda s: gen(), wrap_result=wrap)
        return ts_mod.ConcurrentStreamTestSuite(gen)

    target = c12.SharedTarget(sched, faults) if kind == "cts" else StreamTarget(sched, faults)
    r.target = target
    r.outcome = None
    r.unfinished_at_exit = None

    def main():
        suite = make_suite()
        try:
            suite.run(target)
            r.outcome = ("returned",)
        except S.SchedulerAbort:
            raise
        except BaseException as e:
            r.outcome = ("raised", type(e).__name__)
        # what is still running at the moment run() exits
        r.unfinished_at_exit = [t.id for t in sched.tasks if t.id != 0 and t.started and not t.finished]
        r.stopflags_at_exit = _stop_flags(r)
        if rerun and r.outcome[0] == "raised":
            workers2 = make_workers(config)
            for w in workers2:
                w.sched = sched
            current_workers[0] = workers2
            target2 = c12.SharedTarget(sched, False) if kind == "cts" else StreamTarget(sched, False)
            try:
                suite.run(target2)
                outcome2 = ("returned",)
            except S.SchedulerAbort:
                raise
            except BaseException as e:
                outcome2 = ("raised", type(e).__name__, str(e)[:100])
            r.rerun = (workers2, target2, outcome2)

    old_threading, old_queue, old_etsd = ts_mod.threading, ts_mod.Queue, testtools.ExtendedToStreamDecorator
    ts_mod.threading = shim
    ts_mod.Queue = queue_factory
    testtools.ExtendedToStreamDecorator = SchedETSD
    _CUR_SCHED[0] = sched
    base_threads = real_threading.active_count()
    try:
        sched.execute(main)
    finally:
        ts_mod.threading = old_threading
        ts_mod.Queue = old_queue
        testtools.ExtendedToStreamDecorator = old_etsd
        _CUR_SCHED[0] = None
    r.stopflags_final = _stop_flags(r)
    r.leaked_threads = real_threading.active_count() - base_threads
    r.shim = shim
    return r


def _stop_flags(r):
    flags = {}
    if r.kind == "cts":
        for o in r.observers:
            flags[o.idx] = o.stopped
    else:
        for i, w in enumerate(r.workers):
            if w.result is not None:
                flags[i] = bool(w.result.shouldStop)
    return flags


# ---------------------------------------------------------------------------
# sequential reference runs (no concurrency): what each worker emits


_REF_CACHE = {}


def reference(kind, config):
    key = (kind, config)
    if key in _REF_CACHE:
        return _REF_CACHE[key]
    out = []
    for i, w in enumerate(make_workers(config)):
        if kind == "cts":

            class NullSched:
                aborting = True
                current = None

                def point(self, *a, **k):
                    pass

                def fault(self, *a):
                    return False

            target = c12.SharedTarget(NullSched(), False)
            tfr = ThreadsafeForwardingResult(target, real_threading.Semaphore(1))
            try:
                w.run(tfr)
            except (WorkerBoom, WorkerExit):
                _broken("broken-runner").run(tfr)
            out.append([(n, p) for (_, n, p, _) in target.log])
        else:
            s = rec.Stream()
            etsd = ExtendedToStreamDecorator(s)
            etsd.startTestRun()
            try:
                w.run(etsd)
            except (WorkerBoom, WorkerExit):
                _broken("broken-runner-'%s'" % routes_of(config)[i]).run(etsd)
            etsd.stopTestRun()
            evs = []
            for e in s.log:
                if e[0] == "status":
                    evs.append(_norm_event(e[1], routes_of(config)[i]))
            out.append(evs)
    _REF_CACHE[key] = out
    return out


def _broken(test_id):
    try:
        raise WorkerBoom("ref")
    except WorkerBoom:
        import sys

        return testtools.ErrorHolder(test_id, error=sys.exc_info())


def _norm_event(d, route=None, set_route=True):
    d = dict(d)
    if set_route:
        own = d.get("route_code")
        d["route_code"] = route if own is None else own if route is None else route + "/" + own
    d["timestamp"] = "T"  # presence is checked on the caller's result; values are wall-clock or supplied
    if d.get("file_name") == "traceback":
        # traceback text (and hence its chunking) depends on the call stack: keep one token
        d["file_bytes"] = b"<tb>"
        d["eof"] = "-"
    if d.get("test_tags") is not None:
        d["test_tags"] = tuple(sorted(d["test_tags"]))
    return tuple(sorted(d.items(), key=lambda kv: kv[0]))


def collapse_tb(evs):
    out = []
    for e in evs:
        if out and out[-1] == e and dict(e).get("file_name") == "traceback":
            continue
        out.append(e)
    return out


def split_blocks(events):
    blocks, cur = [], []
    for e in events:
        cur.append(e)
        if e[0] == "stopTest":
            blocks.append(cur)
            cur = []
    if cur:
        blocks.append(cur)
    return blocks


def check_rerun(kind, config, r):
    """The second run() of the same suite object (after an aborted first one) is a run like any other."""
    problems = []
    workers2, target2, outcome2 = r.rerun
    if outcome2 != ("returned",):
        problems.append(("rerun", "second run() of the same suite ended with %r" % (outcome2,)))
    ref = reference(kind, config)
    for i, w in enumerate(workers2):
        if len(w.entries) != 1:
            problems.append(("rerun", "second run: %r entered %d times" % (w, len(w.entries))))
    if kind == "csts":
        fake = Run()
        fake.config = config
        fake.workers = workers2
        problems.extend(("rerun", m) for _, m in _check_csts_log(fake, ref, target2.log, None, 0))
    else:
        got = sorted(repr(b) for b in split_blocks([(n, p) for (_, n, p, _) in target2.log]))
        want = sorted(repr(b) for evs in ref for b in split_blocks(evs))
        if [g for g in got] != want:
            problems.append(("rerun", "second run delivered %r, the sub-suites report %r" % (got, want)))
    return problems


def check_execution(kind, config, r):
    problems = []
    sched = r.sched
    config = config.split("+")[0]
    if sched.deadlock:
        problems.append(("deadlock", sched.deadlock))
        return problems
    if r.rerun is not None:
        problems.extend(check_rerun(kind, config, r))
    for t in sched.tasks:
        # a worker thread dying with the injected fault (its result raised while the broken-runner
        # report itself was being delivered) is a double fault outside the statement
        if t.exc is not None and not isinstance(t.exc, c12.TargetFault):
            problems.append(("task-crashed", "%r died with %r" % (t, t.exc)))
    if r.leaked_threads:
        problems.append(("threads", "%d real thread(s) left behind" % r.leaked_threads))
    workers = r.workers
    nstarted = len(r.shim.created_threads)
    if config == "w2twice":
        # the same object twice: two threads, two runs of it, and run() waits for both
        w = workers[0]
        if r.outcome != ("returned",):
            problems.append(("outcome", "run() ended with %r" % (r.outcome,)))
        if r.unfinished_at_exit:
            problems.append(("join", "run() returned while worker task(s) %r were still running" % (r.unfinished_at_exit,)))
        if nstarted != 2 or len(w.entries) != 2 or len(set(w.entries)) != 2:
            problems.append(("run-once", "one sub-suite object handed out twice: %d threads started, run() entered from tasks %r" % (nstarted, w.entries)))
        got = [e[1] for e in r.target.log if e[1] in ("startTest", "addSuccess", "stopTest")]
        if got != ["startTest", "addSuccess", "stopTest"] * 2:
            problems.append(("delivery", "one sub-suite object handed out twice: the result saw %r" % (got,)))
        return problems
    ref = reference(kind, config)
    log = r.target.log
    if kind == "cts":
        nfaults = sum(1 for e in log if e[3])
    else:
        nfaults = sum(1 for e in log if e[0] == "status" and e[2])
    aborted_by = None
    if r.iter_fault is not None and r.iter_fault <= len(workers):
        aborted_by = "IterBoom"
    elif any(lbl[0] == "fault" and lbl[1] == "interrupt@queue.get" and idx for (lbl, n, idx, c) in sched.chooser.trace):
        aborted_by = "KeyboardInterrupt"
    elif kind == "csts" and nfaults:
        aborted_by = "TargetFault"
    # -- each sub-suite entered exactly once, in its own (non-caller) task
    seen_tasks = []
    for i, w in enumerate(workers):
        if len(w.entries) > 1:
            problems.append(("run-once", "%r entered %d times" % (w, len(w.entries))))
        if i < nstarted and aborted_by is None and len(w.entries) != 1:
            problems.append(("run-once", "%r entered %d times" % (w, len(w.entries))))
        for tid in w.entries:
            if tid == 0:
                problems.append(("own-thread", "%r ran in the caller's thread" % (w,)))
            if tid in seen_tasks:
                problems.append(("own-thread", "%r shared thread %d with another sub-suite" % (w, tid)))
            seen_tasks.append(tid)
    if aborted_by is None:
        if r.outcome != ("returned",):
            problems.append(("outcome", "run() ended with %r although nothing aborted it" % (r.outcome,)))
        if r.unfinished_at_exit:
            problems.append(("join", "run() returned while worker task(s) %r were still running" % (r.unfinished_at_exit,)))
        if nstarted != len(workers):
            problems.append(("run-once", "%d threads started for %d sub-suites" % (nstarted, len(workers))))
    else:
        if r.outcome != ("raised", aborted_by):
            problems.append(("propagate", "run() ended with %r, expected %s to propagate" % (r.outcome, aborted_by)))
        # every worker already started (and still running when run() exits) is told to stop
        task_of = {}
        for i, th in enumerate(r.shim.created_threads):
            if th.task is not None:
                task_of[i] = th.task.id
        for i in range(nstarted):
            if task_of.get(i) in (r.unfinished_at_exit or []):
                told_exit = r.stopflags_at_exit.get(i)
                told_final = r.stopflags_final.get(i)
                if told_exit is False:
                    problems.append(("stop-all", "worker %d was still running when run() aborted but its result was not told to stop" % i))
                elif told_final is False:
                    problems.append(("stop-lost", "worker %d was told to stop when run() aborted, but its result no longer says so afterwards (the request was undone)" % i))
    # -- delivery
    if kind == "cts":
        problems.extend(_check_cts_log(r, ref, log, aborted_by))
    else:
        problems.extend(_check_csts_log(r, ref, log, aborted_by, nfaults))
    return problems


def _check_cts_log(r, ref, log, aborted_by):
    problems = []
    task_to_worker = {}
    for i, w in enumerate(r.workers):
        for tid in w.entries:
            task_to_worker[tid] = i
    # (1) one test at a time: between a startTest and its stopTest (or a raising call) only that task calls
    open_task = None
    prev = None
    for idx, (tid, name, payload, faulted) in enumerate(log):
        if open_task is not None and tid != open_task:
            problems.append(("interleaved", "call %s%r of task %d landed inside a test block of task %d: %r" % (name, payload, tid, open_task, c12._short(log))))
            return problems
        if name == "startTest" and not faulted:
            open_task = tid
            # the block starts with the forwarder's time() call
            if not (prev is not None and prev[0] == tid and prev[1] == "time"):
                problems.append(("block-shape", "startTest%r of task %d not preceded by its start time: %r" % (payload, tid, c12._short(log))))
        elif name == "stopTest":
            open_task = None
        elif faulted and name not in c12.OUTCOME_ARGS:
            open_task = None
        prev = (tid, name)
    # (2) per worker: exactly the events of the sequential reference run, in order
    faulted_tasks = {tid for (tid, name, payload, f) in log if f}
    for tid, wi in task_to_worker.items():
        got = [(n, p) for (t, n, p, f) in log if t == tid]
        want = ref[wi]
        if tid in faulted_tasks:
            k = [f for (t, n, p, f) in log if t == tid].index(True)
            if [_cmp(e) for e in got[: k + 1]] != [_cmp(e) for e in want[: k + 1]]:
                # the fault may have hit the broken-runner report of a worker that raised by itself
                problems.append(("delivery", "worker %d: before the raising call the result received %r, reference run emitted %r" % (wi, got[: k + 1], want[: k + 1])))
            rest = got[k + 1 :]
            in_broken = any(n == "startTest" and str(p[0]).startswith("broken-runner") for n, p in got[: k + 1])
            if not in_broken and aborted_by is None and r.workers[wi].raise_at is None:
                names = [(n, p[0] if p else None) for n, p in rest]
                if ("startTest", "broken-runner") not in names or ("addError", "broken-runner") not in names:
                    problems.append(("broken-runner", "worker %d's run() raised (its result raised) but no errored broken-runner test was reported: %r" % (wi, rest)))
        else:
            g = [_cmp(e) for e in got]
            w_ = [_cmp(e) for e in want]
            if aborted_by is None and g != w_:
                problems.append(("delivery", "worker %d: result received %r, sequential reference run emitted %r" % (wi, got, want)))
            elif aborted_by is not None and g != w_[: len(g)]:
                problems.append(("delivery", "worker %d: result received %r, not a prefix of %r" % (wi, got, want)))
    for tid, name, payload, f in log:
        if tid not in task_to_worker and not (tid == 0 and name == "stop" and aborted_by is not None):
            problems.append(("extra", "unexpected call %s%r by task %d" % (name, payload, tid)))
    if aborted_by is None:
        for i, w in enumerate(r.workers):
            if not w.entries and ref[i]:
                problems.append(("missing", "worker %d never ran; reference emitted %r" % (i, ref[i])))
    return problems


def _cmp(e):
    """Comparable form of a target call: wall-clock times of broken-runner blocks are tokens."""
    n, p = e
    if n == "time" and p and (p[0] is None or p[0].year != 2020):
        return (n, "wallclock")
    return (n, p)


def _check_csts_log(r, ref, log, aborted_by, nfaults):
    problems = []
    per_route = {}
    routes = routes_of(r.config)
    shared_routes = r.config in ROUTES_OF
    for e in log:
        if e[0] != "status":
            problems.append(("extra", "worker %s forwarded to the caller's result" % e[0]))
            continue
        _, kw, faulted, tid = e
        if tid != 0:
            problems.append(("caller-thread", "status() was called on the caller's result from worker task %d" % tid))
        if kw.get("timestamp") is None:
            problems.append(("timestamp", "event without timestamp reached the result: %r" % (kw,)))
        key = kw.get("route_code")
        if shared_routes:
            # workers share a route code: tell them apart by their (disjoint) test ids
            key = (key, (kw.get("test_id") or "?")[0])
        per_route.setdefault(key, []).append(_norm_event(kw, set_route=False))
    for i, evs in enumerate(ref):
        route = routes[i]
        if r.config == "w2routed":
            route = "sub" if route is None else route + "/sub"
        if shared_routes:
            route = (route, "abcd"[i])
        got = collapse_tb(per_route.pop(route, []))
        evs = collapse_tb(evs)
        if aborted_by is None:
            if got != evs:
                problems.append(("delivery", "worker %d (route %r): result received %r, sequential reference run emitted %r" % (i, route, _brief(got), _brief(evs))))
        else:
            if got != evs[: len(got)]:
                problems.append(("delivery", "worker %d (route %r): result received %r, not a prefix of %r" % (i, route, _brief(got), _brief(evs))))
    for route, got in per_route.items():
        problems.append(("extra", "events with unknown route code %r: %r" % (route, _brief(got))))
    return problems


def _brief(evs):
    out = []
    for e in evs:
        d = dict(e)
        out.append((d.get("test_id"), d.get("test_status"), d.get("file_name")))
    return out


# per tier: (kind, config, (preemptions, faults), iter_fault, interrupt)
def plan(tier):
    out = []
    if tier == "quick":
        for kind in ("cts", "csts"):
            out.append((kind, "w2", (2, 1), None, False))
            out.append((kind, "w3", (1, 1), None, False))
            out.append((kind, "w2raise", (1, 1), None, False))
            out.append((kind, "w2raise", (2, 0), None, False))
            out.append((kind, "w1", (2, 1), None, False))
            out.append((kind, "w1empty", (99, 1), None, False))
            out.append((kind, "w2suites", (1, 1), None, False))
            out.append((kind, "w2exit", (1, 0), None, False))
            if kind == "csts":
                out.append((kind, "w2same", (2, 0), None, False))
                out.append((kind, "w2none", (2, 0), None, False))
                out.append((kind, "w2same", (1, 1), None, False))
                out.append((kind, "w2native", (1, 1), None, False))
                out.append((kind, "w2chatty", (1, 0), None, False))
                out.append((kind, "w2routed", (1, 0), None, False))
                out.append((kind, "w2empty", (1, 0), None, False))
            if kind == "csts":
                # (the caller's result raising aborts ConcurrentStreamTestSuite.run)
                out.append((kind, "w1+rerun", (1, 1), None, False))
                out.append((kind, "w2+rerun", (1, 1), None, False))
            else:
                # (for ConcurrentTestSuite: make_tests failing after its first sub-suite; the
                # second run's make_tests fails too, so only the first run's leftovers matter)
                pass
            # aborts: make_tests failing after k sub-suites, interrupt at queue.get
            out.append((kind, "w2", (2, 0), 0, False))
            out.append((kind, "w2", (2, 0), 1, False))
            out.append((kind, "w2", (2, 0), 2, False))
            out.append((kind, "w2", (2, 1), None, True))
            out.append((kind, "w3", (1, 1), None, True))
        out.append(("cts", "w2twice", (2, 0), None, False))
        out.append(("cts", "w3", (2, 0), None, False))
        return out
    # thorough = the quick plan plus deeper / wider harnesses (sizes measured; each shard is
    # additionally capped, and a hit cap is reported in the evidence)
    out = plan("quick")
    for kind in ("cts", "csts"):
        out.append((kind, "w2", (3, 0), None, False))
        out.append((kind, "w2raise", (2, 1), None, False))
        out.append((kind, "w2x2", (2, 0), None, False))
        out.append((kind, "w2x2", (1, 1), None, False))
        out.append((kind, "w3x1", (1, 1), None, False))
        out.append((kind, "w4", (1, 0), None, False))
        out.append((kind, "w3", (2, 0), 2, False))
        out.append((kind, "w2x2", (1, 1), None, True))
    out.append(("csts", "w3", (2, 0), None, False))
    out.append(("cts", "w3x1", (2, 0), None, False))
    return out


SHARD_CAP = 40000


def shards(tier):
    out = []
    for item in plan(tier):
        kind, config, bound, iter_fault, interrupt = item
        faults = bound[1] > 0
        out.append(item + (None,))
        for p in first_level_prefixes(lambda ch: execute(kind, config, ch, faults and not interrupt, iter_fault, interrupt), bound):
            out.append(item + (tuple(p),))
    return out


def run_shard(shard, tier, seed):
    kind, config, bound, iter_fault, interrupt, prefix = shard
    faults = bound[1] > 0 and not interrupt
    res = ShardResult()
    label = "%s/%s/iter=%s/int=%s" % (kind, config, iter_fault, interrupt)

    def run_one(ch):
        return execute(kind, config, ch, faults, iter_fault, interrupt)

    def check(ch, r):
        problems = check_execution(kind, config, r)
        res.evaluations += 1
        if r.rerun is not None:
            res.count("second_runs_after_an_abort", 1)
        if (any(ch.cost) if isinstance(ch.cost, tuple) else ch.cost) or iter_fault is not None:
            res.distinct.add(obs_hash((label, _log_key(r), r.outcome)))
        if len(res.samples) < 1 and r.sched.preemptions >= 1:
            res.add_sample({"harness": label, "schedule": [list(map(str, x)) for x in r.sched.trace[:50]], "run": list(r.outcome or ())})
        for clause, msg in problems:
            res.violation(
                "C13/%s/%s" % (clause, kind) + ("/abort" if (iter_fault is not None or interrupt) else ""),
                "%s [%s]" % (msg, label),
                {"kind": kind, "config": config, "faults": faults, "iter_fault": iter_fault, "interrupt": interrupt, "choices": ch.choices},
            )

    stats = explore(lambda ch: c12._W(run_one(ch)), lambda ch, o: check(ch, o.v), bound, prefix=prefix or (), root_only=prefix is None, order_seed=seed, max_exec=SHARD_CAP)
    if stats.capped:
        res.caps_hit.append("%s prefix %r: stopped after %d schedules" % (label, prefix, SHARD_CAP))
    res.states += stats.choice_points + (1 if prefix is None else 0)
    res.transitions += stats.edges + (0 if prefix is None else 1)
    res.traces_validated += stats.executions
    res.count("schedules", stats.executions)
    res.notes["max_points"] = stats.max_depth
    return res


def _log_key(r):
    if r.kind == "cts":
        return c12._short(r.target.log)
    return [(e[1].get("route_code"), e[1].get("test_id"), e[1].get("test_status"), e[1].get("file_name"), e[2]) for e in r.target.log if e[0] == "status"]


def meta(tier):
    return {
        "technique": MANIFEST_INFO["technique"],
        "rule": "every schedule with <= P preemptions and <= F faults per harness (see bounds); an execution is one complete schedule run to completion on real threads; non-trivial = >= 1 preemption/fault or an injected iterator failure; distinct = distinct (harness, caller-result log, outcome of run())",
        "bounds": [{"suite": k, "workers": c, "preemptions": b[0], "faults": b[1], "make_tests_fails_after": i, "interrupt_at_queue_get": it} for (k, c, b, i, it) in plan(tier)],
        "assumptions": ["workers report through the result they are given and do not touch shared state otherwise", "timestamps of stream events are only required to be non-None"],
    }


def replay(data):
    ch = Chooser(data["choices"])
    r = execute(data["kind"], data["config"], ch, data["faults"], data["iter_fault"], data["interrupt"])
    problems = check_execution(data["kind"], data["config"], r)
    text = "schedule=%r\nlog=%r\nrun()=%r unfinished_at_exit=%r stopflags=%r/%r deadlock=%r\nproblems=%r" % (
        r.sched.trace, _log_key(r), r.outcome, r.unfinished_at_exit, getattr(r, "stopflags_at_exit", None), r.stopflags_final, r.sched.deadlock, problems)
    return (not problems), text
