"""C03 — the reported outcome is sound: success means nothing raised; failures never masked."""

import sys

import testtools
from testtools.testcase import _ExpectedFailure

from vt import proggen as pg
from vt import recorders as rec
from vt.explore.chooser import Chooser, explore, obs_hash
from vt.props import c01
from vt.runner import ShardResult

PROPERTY = "C03"

MANIFEST_INFO = {
    "engine": "A",
    "design_ref": "DESIGN.md section 5, C03",
    "technique": "stateless deviation-bounded DFS over stage behaviours of generated TestCase programs (incl. custom exception classes with user-inserted handlers and subclasses of the signal exceptions) on the real RunTest; allowed-outcome set derived from the lifecycle reference model",
    "level_text": "Every program with at most 3 deviating stages (all ordered pairs and triples of (exception kind, stage); thorough: all stages) over setUp/test/tearDown/0-2 cleanups x 18 behaviours (incl. a BaseException subclass with its own user handler, expectFailure around a predicate that raises an error, one MultipleExceptions holding a failure then a skip, and a fixture whose setUp skips while its own cleanup fails), with/without expectThat mismatch (in the body, followed by a matching one, or only inside a cleanup) and force_failure, is run against a logging testtools.TestResult and an extended recorder; the single outcome must be success iff nothing raised, the mapped outcome for a sole exception (user handlers first, in list order), and an unsuccessful outcome (with wasSuccessful() false) whenever any stage raised a failure or an error.",
    "level_note": "Custom exception classes with user handlers are only judged when they are the sole exception; exceptions raised by cleanups registered in setUp only.",
}

# extra kinds: custom exception classes and subclasses of the signal exceptions
CUSTOM_FRONT, CUSTOM_MID, SKIP_SUB, FAIL_SUB, XFAIL_SUB = "custom_front", "custom_mid", "skip_sub", "fail_sub", "xfail_sub"
XFAIL_ERR = "xfail_err"  # expectFailure(reason, predicate) whose predicate raises an error rather than failing: an error
CUSTOM_BASE = "custom_base"  # derives from BaseException (as asyncio.CancelledError or pytest's outcome exceptions do), own handler
KINDS = pg.ALL_KINDS + (CUSTOM_FRONT, CUSTOM_MID, SKIP_SUB, FAIL_SUB, XFAIL_SUB, "multi_fail_skip", "fx_skip_bad_cleanup", CUSTOM_BASE, XFAIL_ERR)


class CustomBase(BaseException):
    pass


class CustomFront(Exception):
    pass


class CustomMid(Exception):
    pass


class SkipSub(testtools.TestCase.skipException):
    pass


class FailSub(AssertionError):
    pass


class XFailSub(_ExpectedFailure):
    pass


MULTI_FAIL_SKIP = "multi_fail_skip"  # one MultipleExceptions: a failure, then a skip (the skip is the LAST constituent)
FX_SKIP_BAD_CLEANUP = "fx_skip_bad_cleanup"  # useFixture: _setUp skips, its own cleanup then fails while it unwinds
BAD = (pg.FAIL, pg.ERROR, pg.KBI, pg.SYSEXIT, FAIL_SUB)
MAPPED = {
    pg.FAIL: "addFailure",
    pg.ERROR: "addError",
    pg.SKIP: "addSkip",
    pg.XFAIL: "addExpectedFailure",
    pg.UXSUCCESS: "addUnexpectedSuccess",
    pg.KBI: "addError",
    pg.SYSEXIT: "addError",
    SKIP_SUB: "addSkip",
    FAIL_SUB: "addFailure",
    XFAIL_SUB: "addExpectedFailure",
    CUSTOM_FRONT: "handler:front",
    CUSTOM_MID: "handler:mid",
    CUSTOM_BASE: "handler:base",
    XFAIL_ERR: "addError",
}
UNSUCCESSFUL = ("addError", "addFailure", "addUnexpectedSuccess")

_orig_perform = pg.perform


class _SkipThenBoomFixture(__import__("fixtures").Fixture):
    def __init__(self, case, marker):
        super().__init__()
        self._case, self._marker = case, marker

    def _setUp(self):
        self.addCleanup(self._boom)
        raise self._case.skipException(self._marker + "/skip")

    def _boom(self):
        raise pg.VerifError(self._marker + "/cleanup")


def perform(case, ctx, stage, kind):
    if kind == MULTI_FAIL_SKIP:
        from testtools.runtest import MultipleExceptions

        marker = "%s!%s" % (stage, kind)
        ctx.raised.append((stage, kind, marker))
        ctx.xlog.append(("raise", stage, kind))
        infos = []
        try:
            case.fail(marker + "/f")
        except case.failureException:
            infos.append(sys.exc_info())
        try:
            case.skipTest(marker + "/s")
        except case.skipException:
            infos.append(sys.exc_info())
        raise MultipleExceptions(*infos)
    if kind == FX_SKIP_BAD_CLEANUP:
        marker = "%s!%s" % (stage, kind)
        ctx.raised.append((stage, kind, marker))
        ctx.xlog.append(("raise", stage, kind))
        case.useFixture(_SkipThenBoomFixture(case, marker))
        raise AssertionError("useFixture returned")
    if kind in (CUSTOM_FRONT, CUSTOM_MID, SKIP_SUB, FAIL_SUB, XFAIL_SUB, CUSTOM_BASE, XFAIL_ERR):
        marker = "%s!%s" % (stage, kind)
        ctx.raised.append((stage, kind, marker))
        ctx.xlog.append(("raise", stage, kind))
        if kind == CUSTOM_BASE:
            raise CustomBase(marker)
        if kind == XFAIL_ERR:
            def broken_predicate():
                raise pg.VerifError(marker)

            case.expectFailure("known bug", broken_predicate)
            raise AssertionError("expectFailure returned")
        if kind == CUSTOM_FRONT:
            raise CustomFront(marker)
        if kind == CUSTOM_MID:
            raise CustomMid(marker)
        if kind == SKIP_SUB:
            raise SkipSub(marker)
        if kind == FAIL_SUB:
            raise FailSub(marker)
        if kind == XFAIL_SUB:
            try:
                raise AssertionError(marker)
            except AssertionError:
                raise XFailSub(sys.exc_info())
    return _orig_perform(case, ctx, stage, kind)


pg.NON_EXCEPTION_KINDS += (CUSTOM_BASE,)
for _k in (CUSTOM_FRONT, CUSTOM_MID, SKIP_SUB, FAIL_SUB, XFAIL_SUB, CUSTOM_BASE):
    pg.FLATTEN[_k] = (_k,)
pg.FLATTEN[XFAIL_ERR] = (pg.ERROR,)
pg.FLATTEN[MULTI_FAIL_SKIP] = (pg.FAIL, pg.SKIP)
pg.FLATTEN[FX_SKIP_BAD_CLEANUP] = (pg.SKIP, pg.ERROR, pg.ERROR)  # skip, the cleanup's error, fixtures' SetupError


def _do_insert_handlers(case, ctx, site, action):
    ctx.extra["insert_handlers"]()


pg.ACTION_HANDLERS["insert_handlers"] = _do_insert_handlers
pg.ACTION_HANDLERS["front_catchall"] = lambda case, ctx, site, action: None


def execute(config, flavour, chooser):
    old = pg.perform
    pg.perform = perform
    try:
        ctx = pg.Ctx(config, chooser)
        case = pg.new_case(config, ctx)
        handler_calls = []

        def h_front(c, result, e):
            handler_calls.append("handler:front")
            result.addSkip(c, details={})

        def h_mid(c, result, e):
            handler_calls.append("handler:mid")
            result.addSkip(c, details={})

        # user handlers: one inserted at the front, one just before the catch-all -
        # either before run() or by the running test itself (from setUp, before the up-call)
        def h_base(c, result, e):
            handler_calls.append("handler:base")
            result.addSkip(c, details={})

        def insert():
            case.exception_handlers.insert(0, (CustomBase, h_base))
            case.exception_handlers.insert(0, (CustomFront, h_front))
            case.exception_handlers.insert(len(case.exception_handlers) - 1, (CustomMid, h_mid))

        if config.actions.get("setUp.pre") and ("insert_handlers",) in config.actions["setUp.pre"]:
            ctx.extra["insert_handlers"] = insert
        else:
            insert()
        if config.actions.get("setUp.pre") and ("front_catchall",) in config.actions["setUp.pre"]:
            # a catch-all put in FRONT of everything: list order says it wins for every Exception
            def h_all(c, result, e):
                handler_calls.append("handler:all")
                result.addError(c, details={})

            case.exception_handlers.insert(0, (Exception, h_all))
        result, log = c01.make_result(flavour)
        try:
            case.run(result)
            how = ("returned",)
        except BaseException as e:
            how = ("raised", type(e).__name__)
        return ctx, log, how, result, handler_calls
    finally:
        pg.perform = old


def check_execution(config, flavour, ctx, log, how, result, handler_calls):
    problems = []
    model = pg.ModelRun(config, ctx.memo)
    eff = [k for _, k in c01.effective_kinds(config, model)]
    outs = [e[0] for e in log if e[0] in rec.OUTCOMES]
    if len(outs) != 1:
        return [("one-outcome", "outcomes %r" % (outs,))], None
    outcome = outs[0]
    forced = ("forced", pg.FAIL) in c01.effective_kinds(config, model)
    if model.skipped_by_decorator:
        if outcome != "addSkip":
            problems.append(("decorator-skip", "skip-decorated test reported %s" % outcome))
        return problems, outcome
    if not eff:
        if outcome != "addSuccess":
            problems.append(("clean-is-success", "nothing raised, no forced failure, but outcome is %s" % outcome))
    else:
        if outcome == "addSuccess":
            problems.append(("success-unsound", "outcome addSuccess although user code raised %r" % (eff,)))
    catchall = ("front_catchall",) in config.actions.get("setUp.pre", ())
    if catchall:
        if len(eff) == 1 and eff[0] not in (pg.KBI, pg.SYSEXIT, CUSTOM_BASE):
            if handler_calls != ["handler:all"]:
                problems.append(("user-handler", "a catch-all (Exception, handler) was inserted at the front, yet for the sole exception %s the handlers called were %r" % (eff[0], handler_calls)))
        return problems, outcome
    if len(eff) == 1:
        want = MAPPED[eff[0]]
        if want.startswith("handler:"):
            if handler_calls != [want]:
                problems.append(("user-handler", "sole exception %s: user handlers called %r, expected %r" % (eff[0], handler_calls, [want])))
        else:
            if handler_calls:
                problems.append(("user-handler", "user handlers %r called for %s" % (handler_calls, eff[0])))
            if outcome != want:
                problems.append(("sole-mapping", "sole exception %s reported as %s, its type maps to %s" % (eff[0], outcome, want)))
    if any(k in BAD for k in eff) and not any(k in (CUSTOM_FRONT, CUSTOM_MID, CUSTOM_BASE) for k in eff):
        # (what a user-inserted handler reports for its own exception class is the user's business)
        if outcome not in UNSUCCESSFUL:
            problems.append(("masked", "user code raised %r (a failure or error among them) but the outcome is %s" % (eff, outcome)))
        if flavour == "tt" and result.wasSuccessful():
            problems.append(("masked", "user code raised %r but wasSuccessful() is True" % (eff,)))
    return problems, outcome


def shards(tier):
    out = []
    ncs = (0, 1, 2)
    for flavour in ("tt", "ext"):
        for nc in ncs:
            for em in (False, True) + (("cleanup",) if nc else ()):
                for ff in (False, True):
                    out.append((flavour, nc, em, ff, None))
        out.append((flavour, 1, False, False, "front_catchall"))
        out.append((flavour, 1, False, False, "custom_skipexception"))
        out.append((flavour, 2, False, True, "custom_skipexception"))
        out.append((flavour, 1, False, False, "late_handlers"))
        out.append((flavour, 2, True, False, "late_handlers"))
        out.append((flavour, 1, False, False, "xfail_decorator"))
        out.append((flavour, 1, False, False, "skip_method"))
    return out


def config_of(shard):
    flavour, nc, em, ff, dec = shard
    actions = c01.cleanup_actions(nc)
    if dec == "late_handlers":
        actions = dict(actions)
        actions["setUp.pre"] = [("insert_handlers",)]
        dec = None
    if dec == "front_catchall":
        actions = dict(actions)
        actions["setUp.pre"] = [("front_catchall",)]
        dec = None
    kinds = KINDS
    if dec == "custom_skipexception":
        # a subclass of unittest.SkipTest is an ordinary exception for a case with its own skip class
        kinds = tuple(k for k in KINDS if k != SKIP_SUB)
    return pg.Config(actions=actions, kinds=kinds, expect_mismatch=em, force_failure=ff, decorator=dec)


def fingerprint(clause, eff):
    if clause == "masked":
        bad_first = None
        for i, k in enumerate(eff):
            if k in BAD:
                bad_first = i
                break
        later = eff[bad_first + 1 :] if bad_first is not None else []
        if any(k in (pg.SKIP, pg.XFAIL, SKIP_SUB, XFAIL_SUB) for k in later):
            return "C03/masked/failure-or-error-followed-by-skip-or-expected-failure"
    return "C03/%s" % clause


def run_shard(shard, tier, seed):
    res = ShardResult()
    flavour = shard[0]
    config = config_of(shard)
    bound = 3 if tier == "quick" else (5 if shard[1] <= 1 else 4)

    def check(ch, o):
        ctx, log, how, result, handler_calls = o.v
        problems, outcome = check_execution(config, flavour, ctx, log, how, result, handler_calls)
        res.evaluations += 1
        if ch.cost:
            res.distinct.add(obs_hash((shard, tuple(sorted(ctx.memo.items())), outcome)))
        if len(res.samples) < 1 and ch.cost >= 2:
            res.add_sample({"flavour": flavour, "config": config.describe(), "decisions": [[s, str(k)] for (s, _), k in sorted(ctx.memo.items())], "outcome": outcome})
        if problems:
            model = pg.ModelRun(config, ctx.memo)
            eff = [k for _, k in c01.effective_kinds(config, model)]
            for clause, msg in problems:
                res.violation(fingerprint(clause, eff), "%s [flavour=%s config=%s decisions=%s]" % (msg, flavour, config.describe(), sorted(ctx.memo.items())), {"shard": list(shard), "choices": ch.choices})

    stats = explore(lambda ch: c01._wrap(execute(config, flavour, ch)), check, bound, order_seed=seed)
    res.states += stats.choice_points + 1
    res.transitions += stats.edges
    res.traces_validated += stats.executions
    res.notes["bound_completed"] = bound
    return res


def meta(tier):
    return {
        "technique": MANIFEST_INFO["technique"],
        "rule": "every choice sequence with <= bound deviating stages per configuration; non-trivial = >= 1 deviating stage; distinct = distinct (config, decisions, outcome)",
        "bounds": {"deviating_stages": "3 quick / 4-5 thorough", "cleanups": [0, 1, 2], "kinds": list(KINDS), "flavours": ["tt", "ext"]},
        "assumptions": ["user-defined exception classes are neither 'failure' nor 'error' for the masking clause; they are judged only as sole exception", "KeyboardInterrupt/SystemExit count as errors"],
    }


def replay(data):
    shard = tuple(data["shard"])
    config = config_of(shard)
    o = execute(config, shard[0], Chooser(data["choices"]))
    problems, outcome = check_execution(config, shard[0], *o)
    return (not problems), "shard=%r decisions=%r outcome=%r run=%r problems=%r" % (shard, sorted(o[0].memo.items()), outcome, o[2], problems)
